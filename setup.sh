#!/bin/sh
# setup_cmd: offline; makes sure hypothesis is importable in /venv and installs
# atheris into /verif/.deps (used by the thorough fuzz tiers only).
HERE="$(cd "$(dirname "$0")" && pwd)"
cd "$HERE" || exit 2
export PIP_NO_INDEX=1
/venv/bin/python -c "import hypothesis" 2>/dev/null || \
    /venv/bin/pip install --no-index --find-links /opt/veriftools/wheels hypothesis || exit 1
mkdir -p .deps .scratch
if ! PYTHONPATH="$HERE/.deps" /venv/bin/python -c "import atheris" 2>/dev/null; then
    /venv/bin/pip install --no-index --find-links /opt/veriftools/wheels --target "$HERE/.deps" atheris \
        || echo "atheris not installed (fuzz tiers will be skipped)"
fi
PYTHONPATH="$HERE/.deps:$HERE:/repo" /venv/bin/python -c "import hypothesis, yaml, yatiml, yv.runner; print('setup ok', hypothesis.__version__, yaml.__version__)" || exit 1
