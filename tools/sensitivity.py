#!/venv/bin/python
"""Hand-written mutants (DESIGN.md section 7): apply each to a scratch worktree
of /repo, run the repository's tests, run the target property's quick check
with VERIF_REPO pointing at the scratch tree, record the outcome in
SENSITIVITY.json / SENSITIVITY.md.

    tools/sensitivity.py [mutant ids...]
"""
import json
import os
import re
import subprocess
import sys
import tempfile

ROOT = os.path.dirname(os.path.dirname(os.path.abspath(__file__)))

# (id, property, file, old, new, description)
M = []


def mut(mid, prop, file, old, new, desc):
    M.append((mid, prop, file, old, new, desc))


mut('c01-bool-for-int', 'C01', 'yatiml/recognizer.py',
    "                and node.tag == scalar_type_to_tag[expected_type]):\n            return {expected_type}, REC_OK",
    "                and (node.tag == scalar_type_to_tag[expected_type]\n                     or (expected_type is int and node.tag.endswith(':bool')))):\n            return {expected_type}, REC_OK",
    'scalar recogniser accepts a bool node where int is expected')
mut('c01-no-annotation-check', 'C01', 'yatiml/constructors.py',
    "            if key in argspec.args and key in argspec.annotations:",
    "            if False and key in argspec.args:",
    'constructor skips the per-attribute type check')
mut('c02-no-dashed-fallback', 'C02', 'yatiml/recognizer.py',
    "for name in [attr_name, attr_name.replace('_', '-')]:", "for name in [attr_name]:",
    'dashed key no longer stands in for an underscored one at recognition')
mut('c02-no-extraneous-check', 'C02', 'yatiml/constructors.py',
    "            if key not in argspec.args and '_yatiml_extra' not in argspec.args:",
    "            if False:",
    'unknown attributes are no longer rejected')
mut('c02-required-off-by-one', 'C02', 'yatiml/introspection.py',
    "        yield attr_name, attr_type, i < first_optional",
    "        yield attr_name, attr_type, i <= first_optional",
    'first optional parameter counted as required')
mut('c03-abstract-instantiated', 'C03', 'yatiml/recognizer.py',
    "            if not is_abstract(expected_type):", "            if True:",
    'abstract classes are candidates')
mut('c03-tag-conflict-ignored', 'C03', 'yatiml/recognizer.py',
    "                if tagged_class not in recognized_subclasses:", "                if False:",
    'a tag naming an incompatible class is ignored')
mut('c03-issubclass', 'C03', 'yatiml/recognizer.py',
    "            if expected_type in other_class.__bases__:",
    "            if issubclass(other_class, expected_type) and other_class is not expected_type:",
    'all descendants instead of direct subclasses are tried at each level')
mut('c04-strip-not-recursing-seq', 'C04', 'yatiml/util.py',
    "        node.tag = 'tag:yaml.org,2002:seq'\n        for subnode in node.value:\n            strip_tags(resolver, subnode)",
    "        node.tag = 'tag:yaml.org,2002:seq'",
    'strip_tags does not recurse into sequences')
mut('c04-extras-not-stripped', 'C04', 'yatiml/constructors.py',
    "            if key_node.value not in known_keys:\n                strip_tags(self.__loader, value_node)",
    "            if key_node.value not in known_keys:\n                pass",
    'tags below extra attributes are kept')
mut('c04-any-not-stripped', 'C04', 'yatiml/loader.py',
    "        if recognized_type is Any:\n            strip_tags(self, node)",
    "        if recognized_type is Any:\n            pass",
    'tags below Any are kept')
mut('c05-dumper-yaml11-floats', 'C05', 'yatiml/dumper.py',
    "        list('-+0123456789.'))", "        [])",
    'Dumper does not know YAML 1.2 floats (F2 reintroduced)')
mut('c05-loader-regex-unanchored', 'C09', 'yatiml/loader.py',
    "                r'))$', re.X)\n\n        new_implicit_resolvers = dict()\n\n        for first, resolvers in self.yaml_implicit_resolvers.items():\n            new_resolvers = []\n            for tag, regex in resolvers:\n                if tag == 'tag:yaml.org,2002:float':",
    "                r'))', re.X)\n\n        new_implicit_resolvers = dict()\n\n        for first, resolvers in self.yaml_implicit_resolvers.items():\n            new_resolvers = []\n            for tag, regex in resolvers:\n                if tag == 'tag:yaml.org,2002:float':",
    'float regex loses its end anchor (F1 reintroduced)')
mut('c06-sort-keys', 'C06', 'yatiml/dumper.py',
    "explicit_start, explicit_end, version, tags, False)", "explicit_start, explicit_end, version, tags, True)",
    'mapping keys sorted on output')
mut('c06-class-tag', 'C06', 'yatiml/representers.py',
    "        represented = dumper.represent_mapping('tag:yaml.org,2002:map',",
    "        represented = dumper.represent_mapping('!' + self.class_.__name__,",
    'class mappings dumped with a !Class tag')
mut('c07-state-after-value', 'C07', 'yatiml/dumper.py',
    "            elif cur_state == JsonDumperState.MAPPING_VALUE:\n                self._json_state[cur_level] = JsonDumperState.MAPPING_KEY",
    "            elif cur_state == JsonDumperState.MAPPING_VALUE:\n                self._json_state[cur_level] = JsonDumperState.MAPPING_KEY_FIRST",
    'no comma before the second key of a mapping')
mut('c07-ensure-ascii-ignored', 'C07', 'yatiml/dumper.py',
    "                if event.tag == 'tag:yaml.org,2002:str':\n                    self.stream.write(json.dumps(\n                        event.value, ensure_ascii=not self.allow_unicode))",
    "                if event.tag == 'tag:yaml.org,2002:str':\n                    self.stream.write(json.dumps(\n                        event.value, ensure_ascii=True))",
    'ensure_ascii=False has no effect on strings')
mut('c08-seasoning-error-escapes', 'C08', 'yatiml/loader.py',
    "            except SeasoningError as e:\n                message = e.args[0] if e.args else (",
    "            except RecognitionError as e:\n                message = e.args[0] if e.args else (",
    'SeasoningError from savorize is not converted')
mut('c08-userstring-narrow-except', 'C08', 'yatiml/constructors.py',
    "            new_obj = self.class_(node.value)\n        except Exception as e:",
    "            new_obj = self.class_(node.value)\n        except ValueError as e:",
    'string-like constructors: only ValueError is wrapped')
mut('c08-init-narrow-except', 'C08', 'yatiml/constructors.py',
    "                new_obj.__init__(**mapping)\n\n        except Exception as e:",
    "                new_obj.__init__(**mapping)\n\n        except TypeError as e:",
    'user constructors: only TypeError is wrapped')
mut('c09-bool-case-insensitive', 'C09', 'yatiml/loader.py',
    "                r'^(?:true|True|TRUE|false|False|FALSE)$', re.X)",
    "                r'^(?:true|True|TRUE|false|False|FALSE)$', re.X | re.I)",
    'tRuE is a bool')
mut('c09-underscore-digits', 'C09', 'yatiml/loader.py',
    "                r'  |[0-9]*\\.[0-9]+([eE][-+]?[0-9]+)?'",
    "                r'  |[0-9_]*\\.[0-9]+([eE][-+]?[0-9]+)?'",
    '1_000.5 is a float')
mut('c10-hasattr-savorize', 'C10', 'yatiml/loader.py',
    "        if '_yatiml_savorize' in expected_type.__dict__:", "        if hasattr(expected_type, '_yatiml_savorize'):",
    'inherited savorize hooks run for derived classes')
mut('c10-sweeten-unregistered-bases', 'C10', 'yatiml/representers.py',
    "        if base_class in dumper.yaml_representers:", "        if base_class is not object:",
    'sweeten hooks of unregistered bases run')
mut('c11-shared-registry', 'C11', 'yatiml/loader.py',
    "    _registered_classes = None      # type: ClassVar[Dict[str, Type]]",
    "    _registered_classes = {}      # type: ClassVar[Dict[str, Type]]",
    'one registry dict shared by all load functions')
mut('c11-shared-dumper', 'C11', 'yatiml/dumper.py',
    "    class UserDumper(Dumper):\n        pass\n\n    add_to_dumper(UserDumper, list(args))\n\n    class DumpsFunction:",
    "    UserDumper = Dumper\n\n    add_to_dumper(UserDumper, list(args))\n\n    class DumpsFunction:",
    'dumps_function registers representers on the shared Dumper class')
mut('c12-path-sink-drops-indent', 'C12', 'yatiml/dumper.py',
    "                with sink.open('w', encoding='utf-8') as f:\n                    yaml.dump(\n                            obj, f, Dumper=UserDumper,\n                            indent=indent, allow_unicode=not ensure_ascii)",
    "                with sink.open('w', encoding='utf-8') as f:\n                    yaml.dump(\n                            obj, f, Dumper=UserDumper,\n                            allow_unicode=not ensure_ascii)",
    'dump_json to a path ignores indent')
mut('c13-no-mutable-sequence', 'C13', 'yatiml/util.py',
    "                    type_.__origin__ is abc.Sequence or\n                    type_.__origin__ is abc.MutableSequence))",
    "                    type_.__origin__ is abc.Sequence))",
    'MutableSequence not recognised as a sequence type')
mut('c13-style-consulted', 'C13', 'yatiml/recognizer.py',
    "        if (isinstance(node, yaml.ScalarNode)\n                and node.tag == scalar_type_to_tag[expected_type]):",
    "        if (isinstance(node, yaml.ScalarNode)\n                and not (expected_type is str and node.style == '|')\n                and node.tag == scalar_type_to_tag[expected_type]):",
    'literal-style scalars are not recognised as str')
mut('c14-set-value-bool', 'C14', 'yatiml/helpers.py',
    "        if isinstance(value, bool):\n            value_str = 'true' if value else 'false'\n        elif isinstance(value, float):",
    "        if isinstance(value, float):",
    "set_value(True) writes 'True'")
mut('c14-rename-moves', 'C14', 'yatiml/helpers.py',
    "            if key_node.value == attribute:\n                key_node.value = new_name\n                break",
    "            if key_node.value == attribute:\n                key_node.value = new_name\n                self.yaml_node.value.sort(key=lambda kv: kv[0].value == new_name)\n                break",
    'rename_attribute moves the attribute to the end')
mut('c15-short-form-always', 'C15', 'yatiml/helpers.py',
    "                    value_attribute is not None and\n                    len(item.yaml_node.value) == 1 and\n                    item.has_attribute(value_attribute)):",
    "                    value_attribute is not None and\n                    item.has_attribute(value_attribute)):",
    'seq_attribute_to_map uses the short form whenever the value attribute exists')
mut('c15-first-dash-only', 'C15', 'yatiml/helpers.py',
    "                key_node.value = key_node.value.replace('-', '_')", "                key_node.value = key_node.value.replace('-', '_', 1)",
    'only the first dash of a key is replaced')
mut('c16-typ-ignored', 'C16', 'yatiml/helpers.py',
    "        if typ != _Any:\n            recognized_types, result = self.__recognizer.recognize(",
    "        if False:\n            recognized_types, result = self.__recognizer.recognize(",
    'require_attribute ignores the type')
mut('c17-container-mark', 'C17', 'yatiml/recognizer.py',
    "                message = '{}\\nExpected {}'.format(\n                        item.start_mark, type_to_desc(expected_type))",
    "                message = '{}\\nExpected {}'.format(\n                        node.start_mark, type_to_desc(expected_type))",
    "list item errors cite the list's position")
mut('c18-no-cycle-check', 'C18', 'yatiml/loader.py',
    "        if any(node is ancestor for ancestor in ancestors):", "        if False:",
    'cycle check removed')
mut('c18-sequences-not-copied', 'C18', 'yatiml/loader.py',
    "        if isinstance(node, yaml.SequenceNode):\n            ancestors.append(node)",
    "        if isinstance(node, yaml.SequenceNode) and len(node.value) > 3:\n            ancestors.append(node)",
    'short aliased sequences stay shared')


def run(cmd, cwd=None, env=None, timeout=3600):
    p = subprocess.run(cmd, cwd=cwd, env=env, stdout=subprocess.PIPE, stderr=subprocess.STDOUT,
                       text=True, timeout=timeout)
    return p.returncode, p.stdout


def main():
    want = set(sys.argv[1:])
    out_path = os.path.join(ROOT, 'SENSITIVITY.json')
    results = json.load(open(out_path)) if os.path.exists(out_path) else {}
    for mid, prop, file, old, new, desc in M:
        if want and mid not in want:
            continue
        scratch = tempfile.mkdtemp(prefix='sens_', dir='/tmp')
        os.rmdir(scratch)
        r = {'property': prop, 'file': file, 'description': desc}
        try:
            rc, o = run(['git', '-C', '/repo', 'worktree', 'add', '-q', '--detach', scratch, 'HEAD'])
            assert rc == 0, o
            path = os.path.join(scratch, file)
            src = open(path).read()
            if src.count(old) != 1:
                r['error'] = 'pattern occurs %d times' % src.count(old)
                results[mid] = r
                print(mid, r['error'])
                continue
            open(path, 'w').write(src.replace(old, new))
            env = dict(os.environ, PYTHONPATH=scratch)
            rc, o = run(['/venv/bin/python', '-m', 'pytest', '-q', '-p', 'no:cacheprovider', '--no-cov'],
                        cwd=scratch, env=env, timeout=900)
            r['repo_tests'] = o.strip().splitlines()[-1] if o.strip() else ''
            r['repo_tests_pass'] = rc == 0
            env2 = dict(os.environ, VERIF_REPO=scratch)
            rc, o = run([os.path.join(ROOT, 'check'), prop, '--tier', 'quick'], cwd=ROOT, env=env2)
            r['check_exit'] = rc
            r['findings'] = re.findall(r'^finding: (.*)$', o, re.M)[:5]
            r['killed'] = rc == 1
        finally:
            run(['git', '-C', '/repo', 'worktree', 'remove', '--force', scratch])
        results[mid] = r
        print(mid, 'tests_pass=%s' % r.get('repo_tests_pass'), 'killed=%s' % r.get('killed'), r.get('findings'))
        json.dump(results, open(out_path, 'w'), indent=1)
    lines = ['# Sensitivity of the checks to hand-written mutants', '',
             'Generated by tools/sensitivity.py (scratch worktree per mutant, repository tests, then the',
             "target property's quick check with VERIF_REPO). \"tests\" = the 180 repository tests still pass",
             '(a mutant that fails them is not a realistic change, but the check should still see it).', '',
             '| mutant | property | change | tests | check | findings |', '|---|---|---|---|---|---|']
    for mid, r in sorted(results.items()):
        lines.append('| %s | %s | %s | %s | %s | %s |' % (
            mid, r['property'], r['description'],
            'pass' if r.get('repo_tests_pass') else 'FAIL' if 'repo_tests_pass' in r else '?',
            'killed' if r.get('killed') else ('exit %s' % r.get('check_exit') if 'check_exit' in r else r.get('error', '?')),
            '; '.join(r.get('findings', []))[:160]))
    open(os.path.join(ROOT, 'SENSITIVITY.md'), 'w').write('\n'.join(lines) + '\n')


if __name__ == '__main__':
    main()
