#!/venv/bin/python
"""Move replay files of a property into corpus/<ID>/ (regression cases):
   tools/promote.py C15 F11_   (prefix optional)"""
import glob, json, os, re, sys
ROOT = os.path.dirname(os.path.dirname(os.path.abspath(__file__)))
pid = sys.argv[1]
prefix = sys.argv[2] if len(sys.argv) > 2 else ''
os.makedirs(ROOT + '/corpus/' + pid, exist_ok=True)
for f in sorted(glob.glob(ROOT + '/replays/%s/*.json' % pid)):
    d = json.load(open(f))
    name = prefix + re.sub(r'[^A-Za-z0-9=]+', '_', d['finding']['signature'])[:90]
    dest = ROOT + '/corpus/%s/%s.json' % (pid, name)
    if os.path.exists(dest):
        dest = ROOT + '/corpus/%s/%s_%s.json' % (pid, name, os.path.basename(f)[:6])
    os.rename(f, dest)
    print(os.path.relpath(dest, ROOT))
