#!/bin/sh
# Run every quick check against every seeded change and record the results in
# seeded/<id>/meta.json (catch matrix). Usage: tools/matrix.sh [seed dirs...]
HERE="$(cd "$(dirname "$0")/.." && pwd)"
cd "$HERE" || exit 2
[ $# -gt 0 ] || set -- seeded/*/
for d in "$@"; do
    d="${d%/}"
    name="$(basename "$d")"
    pid="$(python3 -c "import json;print(json.load(open('$d/meta.json'))['property'])")"
    needs="$(python3 -c "import json;print(json.load(open('$d/meta.json'))['needs_to_manifest'])")"
    tools/seedcheck.py "$d" --props "${PROPS:-C01,C02,C03,C04,C05,C06,C07,C08,C09,C10,C11,C12,C13,C14,C15,C16,C17,C18}" --seeds "${SEEDS:-1}" > "$d/result.log" 2>&1
    tools/seedkeep.py "$d" "$name" "$pid" "$needs"
    rm -f "$d/result.log" "$d/result.json"
done
