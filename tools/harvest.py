#!/venv/bin/python
"""Run a check against another tree (VERIF_REPO) and move the replay files it
writes into corpus/<ID>/ (regression cases re-run first by every check)."""
import glob, json, os, re, subprocess, sys
ROOT = os.path.dirname(os.path.dirname(os.path.abspath(__file__)))
pid, repo = sys.argv[1], sys.argv[2]
prefix = sys.argv[3] if len(sys.argv) > 3 else ''
env = dict(os.environ, VERIF_REPO=repo)
subprocess.run([ROOT + '/check', pid], env=env, cwd=ROOT, stdout=subprocess.DEVNULL)
os.makedirs(ROOT + '/corpus/' + pid, exist_ok=True)
for f in glob.glob(ROOT + '/replays/%s/*.json' % pid):
    d = json.load(open(f))
    name = prefix + re.sub(r'[^A-Za-z0-9=]+', '_', d['finding']['signature'])[:90]
    os.rename(f, ROOT + '/corpus/%s/%s.json' % (pid, name))
    print('corpus/%s/%s.json' % (pid, name))
