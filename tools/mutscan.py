#!/venv/bin/python
"""Mechanical mutation scan: which small source edits survive the repository's
tests, and which of those do the checks catch?

    tools/mutscan.py --out FILE.jsonl [--files loader.py,util.py] [--sample N] [--seed S]
                     [--max-checks K] [--list]

Mutants are generated from the AST of yatiml/*.py (comparison flips, and/or,
dropped `not`, forced conditions, constants, dropped statements, `continue`/
`break`/`return` tweaks) and applied one at a time to a scratch git worktree of
/repo (removed at the end). A mutant that fails the repository's tests is
'killed_by_tests'; one that passes is run against the quick checks with
VERIF_REPO pointing at the scratch tree, most likely properties first, until one
exits 1. Survivors are written with their diff for triage: an equivalent mutant
(message text, dead code) is expected to survive, anything else is a gap.

This is a sensitivity instrument for the generated-input checks, not a check.
"""
import argparse
import ast
import hashlib
import json
import os
import random
import re
import shutil
import subprocess
import sys
import tempfile
import time

ROOT = os.path.dirname(os.path.dirname(os.path.abspath(__file__)))
REPO = os.environ.get('VP_RUN_REPO') or '/repo'
ALL = ['C%02d' % i for i in range(1, 19)]
PRIORITY = {
    'loader.py': ['C02', 'C18', 'C01', 'C09', 'C08', 'C03', 'C10', 'C13', 'C04', 'C11', 'C12', 'C05'],
    'recognizer.py': ['C02', 'C03', 'C16', 'C13', 'C17', 'C01', 'C04', 'C08'],
    'constructors.py': ['C02', 'C01', 'C08', 'C04', 'C17', 'C05', 'C03'],
    'dumper.py': ['C07', 'C06', 'C05', 'C12', 'C11'],
    'representers.py': ['C06', 'C05', 'C10', 'C07', 'C12'],
    'helpers.py': ['C14', 'C15', 'C16', 'C02', 'C05', 'C10', 'C17', 'C06', 'C08'],
    'util.py': ['C02', 'C17', 'C03', 'C04', 'C01', 'C13', 'C08'],
    'introspection.py': ['C02', 'C01', 'C05', 'C06'],
}

FUNC_PRIORITY = {
    'require_attribute': ['C16'], 'require_attribute_value': ['C16'], 'require_attribute_value_not': ['C16'],
    'require_scalar': ['C16'], 'require_mapping': ['C16'], 'require_sequence': ['C16'],
    'strip_tags': ['C04', 'C01'], 'is_abstract': ['C03'], '__expand_aliases': ['C18'],
    'construct_object': ['C08', 'C09'], '_sweeten': ['C10', 'C06'], '__savorize': ['C10', 'C02'],
    'seq_attribute_to_map': ['C15'], 'map_attribute_to_seq': ['C15'], 'index_attribute_to_map': ['C15'],
    'map_attribute_to_index': ['C15'], 'dashes_to_unders_in_keys': ['C15'], 'unders_to_dashes_in_keys': ['C15'],
    'matches': ['C14', 'C05'], 'ignore_aliases': ['C07', 'C05'], 'is_generic_mapping': ['C13', 'C02'],
    'is_generic_sequence': ['C13', 'C02'], 'is_generic_union': ['C13', 'C02'], '__strip_extra_attributes': ['C04', 'C02'],
    'diagnose_missing_key': ['C17'], 'diagnose_extraneous_key': ['C17'], '__patch_bools': ['C09'],
}

CMP = {ast.Eq: '!=', ast.NotEq: '==', ast.Lt: '<=', ast.LtE: '<', ast.Gt: '>=', ast.GtE: '>',
       ast.Is: 'is not', ast.IsNot: 'is', ast.In: 'not in', ast.NotIn: 'in'}


def seg(src_lines, node):
    """(start offset, end offset) of a node in the joined source."""
    return node.lineno, node.col_offset, node.end_lineno, node.end_col_offset


class Src:
    def __init__(self, text):
        self.text = text
        self.lines = text.split('\n')
        self.starts = [0]
        for ln in self.lines:
            self.starts.append(self.starts[-1] + len(ln.encode('utf-8')) + 1)
        self.bytes = text.encode('utf-8')

    def off(self, lineno, col):
        return self.starts[lineno - 1] + col

    def get(self, node):
        return self.bytes[self.off(node.lineno, node.col_offset):
                          self.off(node.end_lineno, node.end_col_offset)].decode('utf-8')

    def replace(self, node, new):
        a = self.off(node.lineno, node.col_offset)
        b = self.off(node.end_lineno, node.end_col_offset)
        return (self.bytes[:a] + new.encode('utf-8') + self.bytes[b:]).decode('utf-8')


def in_docstring_or_message(node, parents):
    return False


def gen_mutants(path):
    text = open(path).read()
    src = Src(text)
    tree = ast.parse(text)
    out = []
    parent = {}
    for n in ast.walk(tree):
        for c in ast.iter_child_nodes(n):
            parent[c] = n

    def func_of(n):
        while n in parent:
            n = parent[n]
            if isinstance(n, (ast.FunctionDef, ast.AsyncFunctionDef)):
                return n.name
        return '<module>'

    def add(kind, node, new_text, whole=None):
        try:
            mutated = src.replace(node, new_text) if whole is None else whole
            ast.parse(mutated)
        except SyntaxError:
            return
        if mutated == text:
            return
        out.append({'kind': kind, 'line': node.lineno, 'func': func_of(node),
                    'old': src.get(node)[:120], 'new': new_text[:120], 'text': mutated})

    for n in ast.walk(tree):
        if isinstance(n, ast.Compare) and len(n.ops) == 1:
            op = type(n.ops[0])
            if op in CMP:
                left = src.get(n.left)
                right = src.get(n.comparators[0])
                add('cmp', n, '%s %s %s' % (left, CMP[op], right))
        elif isinstance(n, ast.BoolOp):
            # swap and/or between the first two operands only
            opn = 'or' if isinstance(n.op, ast.And) else 'and'
            parts = [src.get(v) for v in n.values]
            add('boolop', n, (' %s ' % opn).join('(%s)' % p for p in parts))
            # drop one operand
            if len(parts) >= 2:
                j = ' and ' if isinstance(n.op, ast.And) else ' or '
                for i in range(len(parts)):
                    rest = parts[:i] + parts[i + 1:]
                    add('dropoperand', n, j.join('(%s)' % p for p in rest))
        elif isinstance(n, ast.UnaryOp) and isinstance(n.op, ast.Not):
            add('dropnot', n, '(%s)' % src.get(n.operand))
        elif isinstance(n, (ast.If, ast.While)) or isinstance(n, ast.IfExp):
            t = n.test
            if not (isinstance(t, ast.Constant)):
                add('cond_true', t, 'True')
                add('cond_false', t, 'False')
        elif isinstance(n, ast.Constant):
            p = parent.get(n)
            if isinstance(p, ast.Expr):
                continue  # docstring
            if n.value is True:
                add('const', n, 'False')
            elif n.value is False:
                add('const', n, 'True')
            elif isinstance(n.value, int) and not isinstance(n.value, bool) and n.value in (0, 1, 2):
                add('const', n, str(n.value + 1))
                if n.value > 0:
                    add('const', n, str(n.value - 1))
        elif isinstance(n, (ast.Continue, ast.Break)):
            add('loopctl', n, 'break' if isinstance(n, ast.Continue) else 'continue')
            add('loopctl', n, 'pass')
        elif isinstance(n, ast.Return) and n.value is not None:
            if not (isinstance(n.value, ast.Constant) and n.value.value is None):
                pass
        if isinstance(n, ast.Expr) and not isinstance(n.value, ast.Constant):
            # drop an expression statement (a call made for its effect);
            # logging calls are equivalent mutants
            if not src.get(n).startswith('logger.'):
                add('dropstmt', n, 'pass')
        elif isinstance(n, (ast.Assign, ast.AugAssign)) and isinstance(parent.get(n), (ast.For, ast.If, ast.While, ast.With, ast.Try, ast.FunctionDef)):
            tgt = n.targets[0] if isinstance(n, ast.Assign) else n.target
            if isinstance(tgt, (ast.Attribute, ast.Subscript)) or isinstance(n, ast.AugAssign):
                add('dropstmt', n, 'pass')
        elif isinstance(n, ast.Raise):
            add('dropraise', n, 'pass')
        elif isinstance(n, ast.Subscript) and isinstance(n.slice, ast.Slice):
            pass
        elif isinstance(n, ast.Call) and isinstance(n.func, ast.Name) and n.func.id in ('all', 'any') and len(n.args) == 1:
            other = 'any' if n.func.id == 'all' else 'all'
            add('allany', n.func, other)
        elif isinstance(n, ast.ExceptHandler) and n.type is not None:
            pass
    # de-duplicate by mutated text
    seen = set()
    res = []
    for m in out:
        h = hashlib.sha1(m['text'].encode()).hexdigest()[:12]
        if h in seen:
            continue
        seen.add(h)
        m['id'] = '%s:%d:%s:%s' % (os.path.basename(path), m['line'], m['kind'], h[:6])
        m['file'] = os.path.basename(path)
        res.append(m)
    return res


def run(cmd, cwd=None, env=None, timeout=1200):
    try:
        p = subprocess.run(cmd, cwd=cwd, env=env, stdout=subprocess.PIPE, stderr=subprocess.STDOUT,
                           text=True, timeout=timeout)
        return p.returncode, p.stdout
    except subprocess.TimeoutExpired as e:
        return 124, (e.stdout or '') if isinstance(e.stdout, str) else ''


def _tests_worker(args):
    idx, chunk = args
    scratch = tempfile.mkdtemp(prefix='mutscan_t%d_' % idx, dir='/tmp')
    res = []
    try:
        for d in ('yatiml', 'tests'):
            shutil.copytree(os.path.join(REPO, d), os.path.join(scratch, d))
        for f in ('setup.cfg', 'setup.py', 'pytest.ini', 'tox.ini', 'pyproject.toml', 'README.rst', 'conftest.py'):
            if os.path.exists(os.path.join(REPO, f)):
                shutil.copy(os.path.join(REPO, f), scratch)
        for m in chunk:
            target = os.path.join(scratch, 'yatiml', m['file'])
            orig = open(target).read()
            try:
                open(target, 'w').write(m['text'])
                env = dict(os.environ, PYTHONPATH=scratch, PYTHONHASHSEED='0', PYTHONDONTWRITEBYTECODE='1')
                rc, out = run(['/venv/bin/python', '-m', 'pytest', '-x', '-q', '-p', 'no:cacheprovider',
                               '--no-cov'], cwd=scratch, env=env, timeout=300)
                mm = re.search(r'(\d+) passed', out)
                ok = rc == 0 and mm and int(mm.group(1)) >= 180
            finally:
                open(target, 'w').write(orig)
            rec = {k: m[k] for k in ('id', 'file', 'line', 'func', 'kind', 'old', 'new')}
            rec['status'] = 'tests_pass' if ok else 'killed_by_tests'
            res.append(rec)
    finally:
        shutil.rmtree(scratch, ignore_errors=True)
    return res


def tests_only(muts, a):
    import multiprocessing
    n = a.tests_only
    chunks = [(i, muts[i::n]) for i in range(n)]
    with multiprocessing.Pool(n) as pool, open(a.out, 'w') as fo:
        for res in pool.imap_unordered(_tests_worker, chunks):
            for r in res:
                fo.write(json.dumps(r) + '\n')
    rs = [json.loads(l) for l in open(a.out)]
    print(len(rs), 'mutants;', sum(r['status'] == 'tests_pass' for r in rs), 'pass the repository tests')


def main():
    ap = argparse.ArgumentParser()
    ap.add_argument('--out', default='mutscan.jsonl')
    ap.add_argument('--files', default='')
    ap.add_argument('--sample', type=int, default=0)
    ap.add_argument('--seed', type=int, default=1)
    ap.add_argument('--max-checks', type=int, default=18)
    ap.add_argument('--list', action='store_true')
    ap.add_argument('--only', default='', help='comma separated mutant ids')
    ap.add_argument('--props', default='', help='run exactly these checks, in this order')
    ap.add_argument('--skip-done', default='', help='jsonl of an earlier run: skip its mutant ids')
    ap.add_argument('--tests-only', type=int, default=0, metavar='JOBS',
                    help='phase 1: only run the repository tests against every mutant, JOBS in parallel')
    ap.add_argument('--survivors-of', default='', help='phase 2: jsonl of a --tests-only run; take its survivors')
    a = ap.parse_args()

    files = [f for f in (a.files.split(',') if a.files else sorted(PRIORITY))]
    muts = []
    for f in files:
        muts += gen_mutants(os.path.join(REPO, 'yatiml', f))
    if a.only:
        want = set(a.only.split(','))
        muts = [m for m in muts if m['id'] in want]
    done = set()
    if a.skip_done and os.path.exists(a.skip_done):
        for l in open(a.skip_done):
            try:
                done.add(json.loads(l)['id'])
            except Exception:
                pass
    muts = [m for m in muts if m['id'] not in done]
    if a.survivors_of:
        keep = set()
        for l in open(a.survivors_of):
            r = json.loads(l)
            if r['status'] == 'tests_pass':
                keep.add(r['id'])
        muts = [m for m in muts if m['id'] in keep]
    if a.tests_only and not a.list:
        return tests_only(muts, a)
    if a.sample:
        random.Random(a.seed).shuffle(muts)
        muts = muts[:a.sample]
    if a.list:
        for m in muts:
            print(m['id'], m['func'], repr(m['old']), '->', repr(m['new']))
        print(len(muts), 'mutants')
        return

    scratch = tempfile.mkdtemp(prefix='mutscan_', dir='/tmp')
    os.rmdir(scratch)
    rc, out = run(['git', '-C', '/repo', 'worktree', 'add', '-q', '--detach', scratch, 'HEAD'])
    assert rc == 0, out
    t00 = time.time()
    try:
        with open(a.out, 'a') as fo:
            for i, m in enumerate(muts):
                t0 = time.time()
                target = os.path.join(scratch, 'yatiml', m['file'])
                orig = open(target).read()
                rec = {k: m[k] for k in ('id', 'file', 'line', 'func', 'kind', 'old', 'new')}
                try:
                    open(target, 'w').write(m['text'])
                    env = dict(os.environ, PYTHONPATH=scratch, PYTHONHASHSEED='0',
                               PYTHONDONTWRITEBYTECODE='1')
                    rc, out = run(['/venv/bin/python', '-m', 'pytest', '-x', '-q', '-p', 'no:cacheprovider',
                                   '--no-cov'], cwd=scratch, env=env, timeout=300)
                    mm = re.search(r'(\d+) passed', out)
                    if not (rc == 0 and mm and int(mm.group(1)) >= 180):
                        rec['status'] = 'killed_by_tests'
                    else:
                        first = FUNC_PRIORITY.get(m['func'], []) + PRIORITY.get(m['file'], [])
                        first = [p for i, p in enumerate(first) if p not in first[:i]]
                        order = first + [p for p in ALL if p not in first]
                        order = order[:a.max_checks]
                        if a.props:
                            order = a.props.split(',')
                        rec['status'] = 'survived'
                        rec['ran'] = []
                        for pid in order:
                            env2 = dict(os.environ, VERIF_REPO=scratch, VERIF_SEED=str(a.seed))
                            rc, out = run([os.path.join(ROOT, 'check'), pid, '--tier', 'quick'], cwd=ROOT,
                                          env=env2, timeout=1500)
                            rec['ran'].append([pid, rc])
                            if rc == 1:
                                rec['status'] = 'caught'
                                rec['caught_by'] = pid
                                rec['findings'] = re.findall(r'^finding: (.*)$', out, re.M)[:3]
                                break
                finally:
                    open(target, 'w').write(orig)
                rec['wall_s'] = round(time.time() - t0, 1)
                fo.write(json.dumps(rec) + '\n')
                fo.flush()
                print('[%d/%d %.0fs] %s %s %s' % (i + 1, len(muts), time.time() - t00, rec['id'],
                                                   rec['status'], rec.get('caught_by', '')), flush=True)
    finally:
        run(['git', '-C', '/repo', 'worktree', 'remove', '--force', scratch])
        shutil.rmtree(scratch, ignore_errors=True)


if __name__ == '__main__':
    main()
