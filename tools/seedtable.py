#!/venv/bin/python
"""Write SEEDED.md: one row per seeded change with what it needs and which
checks catch it (from seeded/*/meta.json)."""
import glob, json, os
ROOT = os.path.dirname(os.path.dirname(os.path.abspath(__file__)))
rows = []
for d in sorted(glob.glob(os.path.join(ROOT, 'seeded', '*', 'meta.json'))):
    m = json.load(open(d))
    name = os.path.basename(os.path.dirname(d))
    patch = open(os.path.join(os.path.dirname(d), 'patch.diff')).read()
    files = sorted({l.split(' b/')[1].strip() for l in patch.splitlines() if l.startswith('diff --git')})
    tested = sorted(m.get('checks', {}))
    rows.append((name, m['property'], ', '.join(files), m['needs_to_manifest'],
                 ', '.join(m.get('caught_by', [])) or '-',
                 'all 18' if len(tested) >= 18 else ', '.join(tested)))
out = ['# Seeded property-breaking changes and the checks that catch them', '',
       'Each change was written by an independent sub-agent that was given only the text of one',
       'property and a scratch worktree of /repo (nothing from /verif). Each was confirmed with',
       '`tools/seedcheck.py`: the demonstration passes on the unchanged tree, the patch applies, the 180',
       'repository tests still pass with it, the demonstration fails with it. "caught by" lists the quick',
       'checks (VERIF_SEED=1 unless noted in meta.json) that exit 1 against the changed tree; "checks run"',
       'says which checks were run against it.', '',
       '| seeded change | property | files | needs, in order to manifest | caught by | checks run |',
       '|---|---|---|---|---|---|']
for r in rows:
    out.append('| %s | %s | %s | %s | %s | %s |' % r)
open(os.path.join(ROOT, 'SEEDED.md'), 'w').write('\n'.join(out) + '\n')
print(len(rows), 'seeded changes')
