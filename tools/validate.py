#!/opt/veriftools/pyvenv/bin/python
"""Validate MANIFEST.json and every evidence file against the schemas."""
import json, sys, glob, os, jsonschema
ROOT = os.path.dirname(os.path.dirname(os.path.abspath(__file__)))
m = json.load(open(ROOT + '/MANIFEST.json'))
jsonschema.validate(m, json.load(open('/root/.vp/MANIFEST.schema.json')))
es = json.load(open('/root/.vp/EVIDENCE.schema.json'))
for c in m['checks']:
    p = os.path.join(ROOT, c['evidence_file'])
    if not os.path.exists(p):
        print('missing', p); continue
    jsonschema.validate(json.load(open(p)), es)
print('manifest + %d evidence files valid' % len(m['checks']))
