#!/venv/bin/python
"""Regenerates /verif/MANIFEST.json from the table below (keeps it valid)."""
import json
import os

ROOT = os.path.dirname(os.path.dirname(os.path.abspath(__file__)))

TRUST = ('CPython 3.12, PyYAML 6.0.3 scanner/parser/composer (and its '
         'int/null/timestamp constructors), Hypothesis 6.168; generated search '
         'never establishes absence beyond the explored cases')

CHECKS = {
    'C09': dict(
        technique='bounded-exhaustive enumeration + Hypothesis generation '
                  'against a hand-written YAML 1.2 float/bool recogniser '
                  '(reference-model oracle)',
        text='Every string up to length 5 (quick) / 6 (thorough) over the '
             '13-symbol number alphabet, every string up to length 3/4 over '
             'the keyword alphabet, all one-character mutations of ~200 '
             'accepted/near-miss spellings and generated longer strings are '
             'classified by an independent regex-free recogniser and compared '
             'with the resolver of a yatiml Loader instance and with '
             'load_function() end to end (type and value). Exhaustive within '
             'the bound, sampled beyond it. Each spelling is also loaded as the '
             'only node of documents with ---, ... and %YAML 1.1 / %YAML 1.2 / '
             '%TAG directives and must be typed as when loaded alone.',
        design='4 C09'),
}

CHECKS['C08'] = dict(
    technique='[thorough tier additionally: atheris/libFuzzer coverage-guided byte fuzzing of load(text) over 20 portfolio models with this property\'s oracle inside the target, 16 processes] '
              'Hypothesis-generated (class model, text) pairs with an '
              'exception-type oracle; failures bucketed by (type, innermost '
              'yatiml/yaml frame)',
    text='Generated class models with every feature that can raise (raising '
         'constructors and string-likes, SeasoningError in savorize, '
         'permissive recognisers, extras, Any, Optional[Any]) are loaded with '
         'rendered valid documents, 0-2 local mutations, explicit tags, '
         'duplicate/complex/non-string/merge keys, ill-formed tagged scalars, '
         'aliases and cycles, token soup and arbitrary unicode; any exception '
         'other than RecognitionError/YAMLError is a violation, one finding '
         'per root cause.',
    design='4 C08')

CHECKS['C01'] = dict(
    technique='[thorough tier additionally: atheris/libFuzzer coverage-guided byte fuzzing of load(text) over 20 portfolio models with this property\'s oracle inside the target, 16 processes] '
              'Hypothesis-generated (class model, document) pairs with a '
              'conformance validity predicate on the returned value and on '
              'the constructor arguments logged by generated classes',
    text='Generated models with all features (hierarchies, abstract and '
         'unregistered classes, enums, string-likes, Union/Optional, '
         'containers and abstract variants, Any, date, Path, bool_union_fix, '
         'extras, permissive recognisers, node-rewriting and adversarial '
         'savorize hooks) x valid, mutated, tagged, aliased, random and empty '
         'documents; whatever load() returns must conform to the document '
         'type all the way down and every logged __init__ call must have '
         'received conforming arguments. '
         'Plus every small tagged mapping document over the hierarchy portfolio models (exhaustive, every class tag on the root).',
    design='4 C01')
CHECKS['C04'] = dict(
    technique='[thorough tier additionally: atheris/libFuzzer coverage-guided byte fuzzing of load(text) over 20 portfolio models with this property\'s oracle inside the target, 16 processes] '
              'Hypothesis-generated tag injection with constructor-log, '
              'plain-data and canary-module oracles',
    text='Generated models with Any/untyped/extra positions and a registered '
         'trap class x documents with registered, unknown, !!python/* and '
         'core tags injected at 1-5 nodes; checked whether or not the load '
         'fails (plus an exhaustive template of classes written as a sequence '
         'and turned into a mapping by _yatiml_savorize): trap never constructed, only admissible classes constructed, '
         'constructor arguments conform, Any positions hold plain data, the '
         'canary module is never imported.',
    design='4 C04')
CHECKS['C18'] = dict(
    technique='[thorough tier additionally: atheris/libFuzzer coverage-guided byte fuzzing of load(text) over 20 portfolio models with this property\'s oracle inside the target, 16 processes] '
              'Hypothesis-generated differential test: aliased document vs '
              'its alias-expanded copy (metamorphic relation), plus cyclic '
              'templates',
    text='Generated (model, document) pairs where 1-3 sub-nodes (scalars, '
         'collections, keys; equal subtrees or subtrees copied to positions '
         'of other declared types; seasoned classes) are shared through '
         'anchors; the outcome must equal that of the expanded document. '
         'Cyclic documents must be rejected with RecognitionError/YAMLError.',
    design='4 C18')

CHECKS['C15'] = dict(
    technique='Hypothesis-generated mapping nodes x transform choices against '
              'reference transforms written from the docstrings (reference-'
              'model oracle) plus reference-free inverse laws',
    text='Generated mapping nodes whose target attribute is a sequence of '
         'mappings (unique or duplicated string keys, value attribute present '
         'or absent, holding scalars/sequences/mappings), a mapping of '
         'mappings and/or scalars, a proper index, missing, or of the wrong '
         'kind; each of seq_attribute_to_map, map_attribute_to_seq, '
         'index_attribute_to_map, map_attribute_to_index (with and without '
         'value attribute, strict or not) must give exactly the documented '
         'shape, leave inapplicable nodes unchanged without raising, raise '
         'SeasoningError for duplicates only in strict mode; the two inverse '
         'compositions must restore the data up to the key attribute\'s '
         'position; the dash/underscore renamings must be inverse on clean '
         'keys. '
         'An item node also referenced from another attribute must come out of seq_to_map / index_to_map untouched.',
    design='4 C15')

CHECKS['C14'] = dict(
    technique='Hypothesis-generated operation histories against an ordered-'
              'map model (model-based testing, invariant after every step) + '
              'exhaustive tables of scalar spellings and (default, value) '
              'pairs against load_function() / a written-down removal rule',
    text='Histories of 1-30 has/get/set/remove/rename_attribute, '
         'has_attribute_type, is_empty, seq_items, make_mapping calls on '
         'generated mapping nodes (present and absent keys, scalar and node '
         'values) are mirrored on an ordered-map model and the plain view of '
         'the node compared after every step; is_scalar/is_mapping/'
         'is_sequence classify every node; get_value() on ~1000 parsed '
         'spellings (all notations of int/float/bool/null/str) equals what '
         'load_function() constructs; set_value(v)/get_value()/is_scalar '
         'round trip for generated values of the five types; '
         'remove_attributes_with_default_values over all pairs of a 16-value '
         'scalar pool (plus overrides, several attributes, node built by '
         'set_attribute or by a dump) never raises and removes exactly the '
         'equal same-kind defaults.',
    design='4 C14')

CHECKS['C02'] = dict(
    technique='[thorough tier additionally: atheris/libFuzzer coverage-guided fuzzing of the same Hypothesis strategy through hypothesis.fuzz_one_input, 16 processes] '
              'differential testing against an independent reference '
              'implementation of the documented pipeline (yv/refsem.py) on '
              'Hypothesis-generated (model, document) pairs and on a bounded-'
              'exhaustive enumeration of small documents',
    text='Generated auto-recognised models (hierarchies, abstract/'
         'unregistered classes, enums, string-likes also as keys, defaults, '
         '_yatiml_extra, Any/untyped, date, Path, bool_union_fix, abstract '
         'containers, declarative savorize ops incl. map_attribute_to_index/'
         'seq, raising constructors) x documents derived from values, 1-2 '
         'mutations of them, random trees; plus every document tree of <=3-4 '
         '(quick) / <=4-5 (thorough) nodes over the key/scalar alphabet of 16 '
         'portfolio models; one generated document in six carries a tagged '
         'object of a registered class below an unknown key (extras are plain '
         'data). Accept/reject must agree with the reference and '
         'accepted values must be structurally equal (exact classes, Python '
         'defaults for omitted parameters, ordered plain extras).',
    design='4 C02')

CHECKS['C03'] = dict(
    technique='[thorough tier additionally: atheris/libFuzzer coverage-guided fuzzing of the same Hypothesis strategy through hypothesis.fuzz_one_input, 16 processes] '
              'differential testing against the reference semantics with the '
              'tag rule + reference-free invariants + metamorphic relation '
              '(permutation of Union members and registration order), on '
              'Hypothesis-generated and bounded-exhaustive tagged documents',
    text='Generated hierarchies (chains, forks, multiple-inheritance join, '
         'abc.ABC and @abstractmethod classes, unregistered classes, '
         'discriminating _yatiml_recognize hooks, Unions/Optionals over '
         'classes and built-ins, a registered Trap class) x documents derived '
         'from instances of every class with 0-2 explicit tags; plus every '
         'mapping document of <=3 (quick) / <=4 (thorough) nodes over 6 '
         'hierarchy portfolio models x every class tag on the root, and '
         'anchored scalars aliased between enum / string-like typed and Union '
         'typed attributes (aliases read as their expansion). Exact '
         'classes and accept/reject must equal the reference; no abstract or '
         'unregistered class is instantiated; unknown/inadmissible tags make '
         'the load fail; reversing and rotating Union members and '
         'registration order never changes the outcome.',
    design='4 C03')

CHECKS['C16'] = dict(
    technique='Hypothesis-generated (model, node, requirement call) triples '
              'against predicates written from the docstrings (reference-'
              'model oracle incl. the reference type matcher) + purity check',
    text='Generated registered models x nodes (documents derived from values, '
         'mutations, random trees, hex/octal ints) x one call of '
         'require_scalar (0-3 of str/int/float/bool/None/date), '
         'require_mapping, require_sequence, require_attribute(name[, type '
         'from the full type language incl. classes, enums, string-likes, '
         'unions, containers]), require_attribute_value / _value_not (five '
         'scalar kinds): returns exactly when the documented condition '
         'holds, raises RecognitionError otherwise, never another exception, '
         'never modifies the node. '
         'For mappings with a repeated key only the weak oracle applies (returns or raises RecognitionError, node untouched).',
    design='4 C16')

CHECKS['C07'] = dict(
    technique='bounded-exhaustive enumeration of plain-data trees x formatting '
              'options + Hypothesis-generated values, judged by two strict '
              'JSON parsers (validity predicate), comparison with the JSON '
              'projection (reference model) and a JSON->load round trip',
    text='Every plain tree with <=4 nodes (quick) / <=5 (thorough) x indent '
         'in {None,0..8} x ensure_ascii in {True,False}, every tree one node '
         'larger under 2/4 option pairs, and generated plain trees and class-'
         'model values (enums, string-likes also as keys, paths, dates, '
         'extras, sweeten hooks, _yatiml_attributes; quotes, backslashes, all '
         'control characters, NEL/U+2028/BOM, non-BMP, lone surrogates, '
         'extreme finite floats, big ints): output accepted by Python json '
         '(constants rejected) and by an own RFC 8259 parser, content equal '
         'to the JSON projection with int/float kind and order, ASCII-only '
         'and whitespace-free by default, no escaped non-ASCII with '
         'ensure_ascii=False, load(json) equal for printable-BMP data. '
         'Equal date / path / string-like leaves are interned to one object (still tree-shaped); the value also twice in a list.',
    design='4 C07')

CHECKS['C06'] = dict(
    technique='Hypothesis-generated (model, value) pairs; the dumped text is '
              'read by a plain YAML parser (PyYAML safe_load/parse/'
              'compose_all) and compared with an independent projection '
              '(reference model); object-graph snapshot and double-dump '
              'comparison (invariants)',
    text='Generated models (inheritance, enums, string-likes also as keys, '
         'Path, dates, Any/untyped, _yatiml_extra, _yatiml_attributes, hidden '
         'state, declarative sweeten hooks: default removal with overrides, '
         'renaming, dashes, added/removed attributes, seq/index-to-map) x '
         'values with hard strings, non-finite floats, big ints, optionally a '
         'sub-object referenced twice, as returned by dumps(_json) and as '
         'written to an open stream by dump(_json): exactly one well-formed document, no '
         'explicit tag on any event, safe_load(text) equals the projection '
         'strictly and in order, object graph (identities, types, vars, '
         'order) unchanged, second dump identical.',
    design='4 C06')

CHECKS['C05'] = dict(
    technique='[thorough tier additionally: atheris/libFuzzer coverage-guided fuzzing of the same Hypothesis strategy through hypothesis.fuzz_one_input, 16 processes] '
              'Hypothesis-generated (model, value) round trips load(dumps(v)) '
              '== v, with unambiguity decided independently by the reference '
              'semantics on the documented projection; exhaustive pass over '
              'the adversarial string pool x positions',
    text='Generated models (hierarchies, discriminating recognisers, enums, '
         'string-likes also as keys, Path, dates, Any/untyped, extras, '
         'defaults, inverse sweeten/savorize pairs: default removal, '
         'renaming, dashes, markers, _yatiml_attributes, seq/index<->map) x '
         'values from the hard pools (number/bool/null/date/syntax look-alike '
         'strings, non-finite floats, tz-aware datetimes, big ints), '
         'optionally with a twice-referenced sub-object; plus every string of '
         'the ~130-string adversarial pool at 13 positions (document, item, '
         'key, value, typed/Any/untyped/extra attribute, extra key, string-'
         'like, string-like key, UserString, Path). Values the reference does '
         'not read back from their projection are discarded and counted.',
    design='4 C05')

CHECKS['C13'] = dict(
    technique='Hypothesis-generated metamorphic testing: five meaning-'
              'preserving transformations of the document or the model, '
              'outcome equality as the oracle (no reference needed)',
    text='Generated (model, document) pairs, valid and invalid, x T1 key '
         'permutation of every class mapping (with by-name corruptions), T2 '
         're-serialisation in 10 styles (block, flow, double/single quoted, '
         'literal, canonical, JSON-like, narrow, wide indent, explicit '
         'markers; same (kind, tag, value) tree checked mechanically), T3 1-3 '
         'additional unrelated registered classes, T4 List/Sequence/'
         'MutableSequence and Dict/Mapping/MutableMapping rotated everywhere, '
         'T5 bool_union_fix inserted at any position of every Union with '
         'bool: both loads fail or both return equal values. '
         'T3 registers flat classes, a base/derived pair, an abstract base with a child, string-like and hooked classes; exhaustive T3 phase over small documents of 8 portfolio models.',
    design='4 C13')

CHECKS['C12'] = dict(
    technique='Hypothesis-generated differential testing across source kinds '
              '(str, Path, text stream, StringIO, binary stream, BytesIO) and '
              'sink kinds (file name, Path, text stream, StringIO): outcome / '
              'byte equality as the oracle',
    text='Generated (model, document) pairs incl. invalid documents, multi-'
         'line block/literal/quoted re-serialisations, CRLF and CR line ends, '
         'BOM, NEL, non-ASCII comments and arbitrary UTF-8 text are loaded '
         'from six source kinds: all give structurally equal values or the '
         'same error class citing the same (line, column) set. Generated '
         '(dumper kind, value, indent, ensure_ascii) cases are written to four '
         'sink kinds, also to streams already in use (header written, second '
         'dump, append mode): the bytes added equal dumps(...) encoded as UTF-8.',
    design='4 C12')

CHECKS['C10'] = dict(
    technique='Hypothesis-generated hierarchies with hooks on arbitrary '
              'subsets of classes; the recorded hook trace is compared with '
              'the sequence the rule predicts (reference-model oracle on '
              'call histories) plus effect-based pipeline-position checks',
    text='Single-inheritance chains of depth 1-4 with optional unregistered '
         'topmost ancestor, unregistered mix-in and registered sibling branch, '
         '_yatiml_recognize/_yatiml_savorize/_yatiml_sweeten defined on '
         'arbitrary subsets, objects at document, list, dict, attribute (of a '
         'hooked holder class), Union and Optional positions: savorize calls '
         'on load and sweeten calls on dump equal the predicted sequence '
         '(registered chain, base first, once each, cls = defining class, '
         'parent before child on load / after on dump); recognise hooks only '
         'ever see their own class; hooks of unregistered classes never run; '
         'savorize runs after recognition and before construction (word->int '
         'conversion reaches __init__); SeasoningError surfaces as '
         'RecognitionError; sweeten sees the node built from the attributes. '
         'String-like classes with hooks also as Dict key types; an object reached through an alias inside an aliased collection is seasoned exactly once per node.',
    design='4 C10')

CHECKS['C17'] = dict(
    technique='Hypothesis-generated failing documents with a validity '
              'predicate on the positions parsed from the message; for the '
              'strong claim single-point corruptions at known tree paths '
              'whose line numbers are recovered by composing the text',
    text='Weak claim: arbitrary generated models (hierarchies, abstract '
         'classes, hooks, extras, unions, discriminators) x failing '
         'documents in flow/block/narrow/literal/explicit-marker style: every '
         'RecognitionError cites >=1 position and every cited (line, column) '
         'lies inside the document. Strong claim: hierarchy-free, hook-free '
         'models x valid block-style documents x one corruption (scalar of '
         'another type, misspelt key, dropped required key, added unknown '
         'key, unknown enum member) at any depth: some cited line is the '
         'line of the corrupted node, of its key or of the start of the '
         'enclosing mapping, and unknown/missing/misspelt keys are named in '
         'quotes. '
         'Includes items of a permissive-recogniser class directly below the root (problems found only at construction time).',
    design='4 C17')

CHECKS['C11'] = dict(
    technique='Hypothesis rule-based state machine (stateful / model-based '
              'testing) over create/call histories with a fresh-process '
              'differential oracle, global-registry invariants after every '
              'step, thread batches under a harness-owned deterministic '
              'line-level scheduler, and an exhaustive single-preemption '
              'schedule sweep over pairs of calls',
    text='Histories of up to 25 (quick) / 40 (thorough) steps: creating load '
         'and dump(s)/dumps_json functions over four models that share class '
         'names with different signatures, calling them on 24 valid/invalid/'
         'foreign-tagged/aliased/cyclic/unparseable documents and on values '
         'of their own and of other models, sequentially and as 2-3 calls in '
         'threads under generated (thread, quantum) schedules. Every call '
         'must give the outcome the same call has on freshly built classes '
         'and functions in a new process. Plus a bounded-exhaustive single-'
         'preemption sweep: 9 pairs of calls of one function in two threads, '
         'thread 0 preempted after k yield points for every k (lines inside '
         'yatiml/; thorough: also yaml/). PyYAML registries, yaml.safe_load/'
         'safe_dump answers (baseline from a process that never imported '
         'yatiml), yatiml base-class registries and vars() of user classes '
         'are unchanged after every step.',
    design='4 C11',
    note=TRUST + '; thread schedules are interleavings of Python lines under '
         'the GIL - native races are out of reach')

NOT_YET = 'check not built yet in this session (work in progress)'


def main():
    props = [json.loads(l) for l in open(os.path.join(ROOT, 'properties.jsonl'))]
    checks = []
    na = []
    for p in props:
        pid = p['id']
        c = CHECKS.get(pid)
        if c is None:
            na.append({'property_id': pid, 'reason': NOT_YET})
            continue
        checks.append({
            'property_id': pid,
            'quick_cmd': './check %s --tier quick' % pid,
            'thorough_cmd': './check %s --tier thorough' % pid,
            'evidence_file': 'evidence/%s.json' % pid,
            'replay_cmd_template': './check %s --replay {path}' % pid,
            'engine': 'yv',
            'level_claimed': {'category': 'exploration', 'text': c['text'],
                              'design_ref': 'DESIGN.md section ' + c['design']},
            'level_note': c.get('note', TRUST),
            'technique': c['technique'],
        })
    m = {
        'version': 1,
        'setup_cmd': './setup.sh',
        'hooks': {
            'guard': 'YATIML_VERIF',
            'enable': 'no instrumentation is needed inside yatiml: checks '
                      'import /repo\'s working tree directly (pure Python) and '
                      'observe through generated user classes and the public '
                      'API; the guard name is reserved and unused',
            'baseline_off_cmd': 'cd /repo && /venv/bin/python -m pytest -q '
                                '-p no:cacheprovider --no-cov',
            'source_commits': [],
            'add_only': True,
        },
        'engines': [{
            'name': 'yv', 'path': 'yv/',
            'serves_properties': [c['property_id'] for c in checks],
            'kind_free_text': 'Hypothesis property-based testing + bounded '
                              'exhaustive enumeration, sharded over 16 '
                              'processes, with failure bucketing, shrinking '
                              'and replay files (yv/runner.py)'}],
        'checks': checks,
        'not_applicable': na,
        'notes': 'Technique family: property-based testing and fuzzing. See '
                 'DESIGN.md. known_findings.json lists repaired (fixed:) and '
                 'open findings; corpus/<ID>/ holds regression replays run '
                 'first by every check.',
    }
    with open(os.path.join(ROOT, 'MANIFEST.json'), 'w') as f:
        json.dump(m, f, indent=1)
        f.write('\n')


if __name__ == '__main__':
    main()
