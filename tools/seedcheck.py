#!/venv/bin/python
"""Validate a seeded change and run checks against it.

    tools/seedcheck.py <dir with patch.diff + demo.py> [--props C01,C05,...] [--tier quick]
                       [--seeds 1,2]

In a scratch git worktree of /repo (outside /repo and /verif, removed at the
end): the demonstration must pass on the unchanged tree; the patch must apply;
the repository's tests must still pass; the demonstration must fail. Then the
chosen checks run with VERIF_REPO pointing at the scratch tree. Prints a JSON
summary (also written to <dir>/result.json).
"""
import argparse
import json
import os
import re
import shutil
import subprocess
import sys
import tempfile

ROOT = os.path.dirname(os.path.dirname(os.path.abspath(__file__)))
ALL = ['C%02d' % i for i in range(1, 19)]


def run(cmd, cwd=None, env=None, timeout=3600):
    p = subprocess.run(cmd, cwd=cwd, env=env, stdout=subprocess.PIPE, stderr=subprocess.STDOUT,
                       text=True, timeout=timeout)
    return p.returncode, p.stdout


def main():
    ap = argparse.ArgumentParser()
    ap.add_argument('dir')
    ap.add_argument('--props', default=','.join(ALL))
    ap.add_argument('--tier', default='quick')
    ap.add_argument('--seeds', default='1')
    a = ap.parse_args()
    d = os.path.abspath(a.dir)
    patch = os.path.join(d, 'patch.diff')
    demo = os.path.join(d, 'demo.py')
    scratch = tempfile.mkdtemp(prefix='seedcheck_', dir='/tmp')
    os.rmdir(scratch)
    res = {'dir': d}
    try:
        rc, out = run(['git', '-C', '/repo', 'worktree', 'add', '-q', '--detach', scratch, 'HEAD'])
        assert rc == 0, out
        env = dict(os.environ, PYTHONPATH=scratch, PYTHONHASHSEED='0')
        rc, out = run(['/venv/bin/python', demo], cwd=d, env=env, timeout=600)
        res['demo_on_unchanged'] = rc
        rc, out = run(['git', '-C', scratch, 'apply', patch])
        res['patch_applies'] = rc == 0
        if rc != 0:
            res['apply_output'] = out[-500:]
            return res
        rc, out = run(['/venv/bin/python', '-m', 'pytest', '-q', '-p', 'no:cacheprovider', '--no-cov'],
                      cwd=scratch, env=env, timeout=900)
        m = re.search(r'(\d+) passed', out)
        res['tests'] = out.strip().splitlines()[-1] if out.strip() else ''
        res['tests_pass'] = rc == 0 and bool(m) and int(m.group(1)) >= 180
        rc, out = run(['/venv/bin/python', demo], cwd=d, env=env, timeout=600)
        res['demo_on_changed'] = rc
        res['demo_output'] = out[-600:]
        res['valid'] = (res['demo_on_unchanged'] == 0 and res['tests_pass']
                        and res['demo_on_changed'] != 0)
        checks = {}
        for pid in [p for p in a.props.split(',') if p]:
            for seed in a.seeds.split(','):
                env2 = dict(os.environ, VERIF_REPO=scratch, VERIF_SEED=seed)
                rc, out = run([os.path.join(ROOT, 'check'), pid, '--tier', a.tier], cwd=ROOT, env=env2)
                sigs = re.findall(r'^finding: (.*)$', out, re.M)
                checks.setdefault(pid, {})[seed] = {'rc': rc, 'findings': sigs[:6]}
                if rc == 2:
                    checks[pid][seed]['tail'] = out[-800:]
        res['checks'] = checks
        res['caught_by'] = sorted(p for p, r in checks.items() if any(x['rc'] == 1 for x in r.values()))
        res['harness_errors'] = sorted(p for p, r in checks.items() if any(x['rc'] == 2 for x in r.values()))
        return res
    finally:
        run(['git', '-C', '/repo', 'worktree', 'remove', '--force', scratch])
        shutil.rmtree(scratch, ignore_errors=True)
        # replays written while testing a changed tree are not findings
        with open(os.path.join(d, 'result.json'), 'w') as f:
            json.dump(res, f, indent=1)
        print(json.dumps(res, indent=1))


if __name__ == '__main__':
    main()
