#!/venv/bin/python
"""For every seeded change: run its property's quick check against the changed
tree and copy the (shrunk) failing cases into corpus/<ID>/ as regression cases
named seeded_<change>_<n>.json. They pass on the unchanged tree and fail at once
if that defect is ever introduced (replay tier, seconds)."""
import glob, json, os, re, shutil, subprocess, sys, tempfile
ROOT = os.path.dirname(os.path.dirname(os.path.abspath(__file__)))
only = set(sys.argv[1:])
for d in sorted(glob.glob(os.path.join(ROOT, 'seeded', '*', ''))):
    name = os.path.basename(d.rstrip('/'))
    if only and name not in only:
        continue
    meta = json.load(open(d + 'meta.json'))
    pid = meta['property']
    have = glob.glob(os.path.join(ROOT, 'corpus', pid, 'seeded_%s_*.json' % name))
    if have and not only:
        continue
    scratch = tempfile.mkdtemp(prefix='seedcorpus_', dir='/tmp')
    os.rmdir(scratch)
    subprocess.run(['git', '-C', '/repo', 'worktree', 'add', '-q', '--detach', scratch, 'HEAD'], check=True)
    try:
        subprocess.run(['git', '-C', scratch, 'apply', d + 'patch.diff'], check=True)
        rdir = os.path.join(ROOT, 'replays_other_tree', pid)
        shutil.rmtree(rdir, ignore_errors=True)
        env = dict(os.environ, VERIF_REPO=scratch)
        subprocess.run([os.path.join(ROOT, 'check'), pid, '--tier', 'quick'], cwd=ROOT, env=env,
                       stdout=subprocess.DEVNULL, stderr=subprocess.DEVNULL)
        files = sorted(glob.glob(os.path.join(rdir, '*.json')), key=os.path.getsize)[:3]
        os.makedirs(os.path.join(ROOT, 'corpus', pid), exist_ok=True)
        kept = 0
        for i, f in enumerate(files):
            dest = os.path.join(ROOT, 'corpus', pid, 'seeded_%s_%d.json' % (name, i))
            shutil.copy(f, dest)
            # must pass on the unchanged tree
            r = subprocess.run([os.path.join(ROOT, 'check'), pid, '--replay', dest], cwd=ROOT,
                               stdout=subprocess.PIPE, stderr=subprocess.STDOUT, text=True)
            if r.returncode != 0:
                os.remove(dest)
                print('  dropped (does not pass on the unchanged tree):', dest)
            else:
                kept += 1
        print(name, pid, 'kept', kept, 'of', len(files))
    finally:
        subprocess.run(['git', '-C', '/repo', 'worktree', 'remove', '--force', scratch])
