#!/venv/bin/python
"""Store a confirmed seeded change under /verif/seeded/<name>/:
   tools/seedkeep.py <OUT dir> <name> <property id> "<what it needs to manifest>"
Reads <OUT>/result.json written by tools/seedcheck.py."""
import json, os, shutil, sys
ROOT = os.path.dirname(os.path.dirname(os.path.abspath(__file__)))
src, name, pid, needs = sys.argv[1:5]
res = json.load(open(os.path.join(src, 'result.json')))
assert res.get('valid'), 'not a confirmed change: %s' % {k: res.get(k) for k in ('demo_on_unchanged', 'tests_pass', 'demo_on_changed')}
dst = os.path.join(ROOT, 'seeded', name)
os.makedirs(dst, exist_ok=True)
if os.path.realpath(src) != os.path.realpath(dst):
    shutil.copy(os.path.join(src, 'patch.diff'), dst)
    shutil.copy(os.path.join(src, 'demo.py'), dst)
    if os.path.exists(os.path.join(src, 'NOTES.md')):
        shutil.copy(os.path.join(src, 'NOTES.md'), dst)
meta_path = os.path.join(dst, 'meta.json')
meta = json.load(open(meta_path)) if os.path.exists(meta_path) else {}
meta.update({
    'property': pid,
    'origin': 'independent sub-agent given only the property text and a scratch worktree',
    'needs_to_manifest': needs,
    'confirmed': {
        'demo_on_unchanged_tree_exit': res['demo_on_unchanged'],
        'repo_tests_with_change': res['tests'],
        'demo_on_changed_tree_exit': res['demo_on_changed'],
        'how': 'tools/seedcheck.py: scratch git worktree of /repo HEAD, git apply patch.diff, '
               'pytest -q -p no:cacheprovider --no-cov, PYTHONPATH=<scratch> /venv/bin/python demo.py',
    },
})
checks = meta.get('checks', {})
for p, r in res.get('checks', {}).items():
    checks[p] = {s: {'exit': x['rc'], 'findings': x['findings']} for s, x in r.items()}
meta['checks'] = checks
meta['caught_by'] = sorted(p for p, r in checks.items() if any(x['exit'] == 1 for x in r.values()))
json.dump(meta, open(meta_path, 'w'), indent=1)
print(name, 'caught by', meta['caught_by'])
