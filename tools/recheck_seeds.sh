#!/bin/sh
# Re-run the target property's quick check against every seeded change at the
# given seeds; print the changes that are NOT caught at every seed.
HERE="$(cd "$(dirname "$0")/.." && pwd)"; cd "$HERE" || exit 2
SEEDS="${SEEDS:-1,2}"
for d in seeded/*/; do
  d="${d%/}"; pid="$(python3 -c "import json;print(json.load(open('$d/meta.json'))['property'])")"
  tools/seedcheck.py "$d" --props "$pid" --seeds "$SEEDS" > "$d/result.log" 2>&1
  python3 - "$d" "$pid" <<'PY'
import json,sys
d,pid=sys.argv[1:3]
r=json.load(open(d+'/result.json'))
rc={s:x['rc'] for s,x in r.get('checks',{}).get(pid,{}).items()}
ok=r.get('valid') and rc and all(v==1 for v in rc.values())
print(('OK   ' if ok else 'MISS ')+d, r.get('valid'), rc)
PY
  rm -f "$d/result.log" "$d/result.json"
done
