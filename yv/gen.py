"""Hypothesis strategies: model specs, values of a type, documents."""
import copy
import datetime
import math

from hypothesis import strategies as st

from yv import tree as T

# ---------------------------------------------------------------------------
# scalar pools, biased to the hard cases named in the properties
HARD_STRINGS = [
    '', ' ', 'x', 'abc', 'a b', '1', '-1', '0', '1e5', '1E5', '-.5', '1.', '1.e5',
    '.5', '1.2.3', '1.5', '+1', '0x1f', '0o17', '017', '1_000', '1_000.5',
    '1:30', '1:30.5', '190:20:30', '.inf', '-.inf', '.nan', '.NaN', 'inf', 'nan',
    'yes', 'no', 'on', 'off', 'y', 'n', 'Yes', 'NO', 'true', 'True', 'TRUE',
    'false', 'False', 'FALSE', 'trueish', 'null', 'Null', 'NULL', '~', 'None',
    '2001-01-01', '2001-01-01 10:00:00', '2001-01-01T10:00:00Z', '2001-13-45',
    '<<', '=', 'a: b', 'a:b', 'a #b', '- a', '-', '?', ': ', '#x', '&a', '*a',
    '!t', '!!str x', '|', '>', '"', "'", '"x"', "'x'", '[a]', '{a: b}', '[', ']',
    '{', '}', ',', '%x', '@x', '`x', ' x', 'x ', '  ', 'a\nb', 'a\n', '\n', 'a\tb',
    '\t', 'a\\b', '\\', 'a\\nb', '---', '...', '--- x', 'é', 'ü', '日本', '😀',
    '\x85', '\xa0', ' ', ' ', '﻿', '\x00', '\x01', '\x1b', '\x7f',
    'a' * 90, 'word ' * 30, '0.0', '-0', '1e400', '123456789012345678901234567890',
]
SIMPLE_STRINGS = ['x', 'abc', 'red', 'k', 'v', 'hello', 'a b', 'bad', 'badge']
KEY_STRINGS = ['k', 'j', 'key', 'some_key', 'some-key', 'x', 'a', 'n_1', 'n-1']


@st.composite
def numberish(draw):
    """Strings built like numbers: sign, digits (with _ separators), fraction,
    exponent, radix prefixes, sexagesimal parts - most are *not* numbers."""
    digs = st.text(alphabet='0123456789_', min_size=0, max_size=4)
    out = draw(st.sampled_from(['', '', '-', '+']))
    out += draw(st.sampled_from(['', '', '', '0x', '0o', '0b', '0']))
    out += draw(digs)
    if draw(st.booleans()):
        out += draw(st.sampled_from(['.', '.', ':', '._'])) + draw(digs)
    if draw(st.booleans()):
        out += draw(st.sampled_from(['e', 'E', 'e+', 'e-', 'E+', 'e_'])) + draw(digs)
    return out


def strings(hard=True):
    pools = [st.sampled_from(SIMPLE_STRINGS)]
    if hard:
        pools += [st.sampled_from(HARD_STRINGS), numberish(),
                  st.text(max_size=6),
                  st.text(alphabet=st.characters(blacklist_categories=('Cs',)),
                          max_size=10)]
    return st.one_of(*pools)


def ints():
    return st.one_of(st.integers(-5, 20), st.sampled_from(
        [0, 1, -1, 7, 42, 2 ** 31, -2 ** 63, 10 ** 30]), st.integers())


def floats(finite=False):
    base = [st.sampled_from([0.0, -0.0, 1.0, 1.5, -2.25, 1e5, 1e-7, 1e16, 1e22,
                             1.7976931348623157e308, 5e-324, 0.1, 100.0]),
            st.floats(allow_nan=False, allow_infinity=False)]
    if not finite:
        base.append(st.sampled_from([math.inf, -math.inf, math.nan]))
    return st.one_of(*base)


def dates():
    return st.one_of(
        st.dates(datetime.date(1, 1, 1), datetime.date(9999, 12, 31)),
        st.sampled_from([datetime.date(2001, 1, 1), datetime.date(1999, 12, 31)]))


def datetimes():
    return st.one_of(
        st.datetimes(datetime.datetime(1000, 1, 1), datetime.datetime(9999, 1, 1)),
        st.datetimes(datetime.datetime(1900, 1, 1), datetime.datetime(2100, 1, 1),
                     timezones=st.sampled_from(
                         [datetime.timezone.utc,
                          datetime.timezone(datetime.timedelta(hours=5, minutes=30)),
                          datetime.timezone(datetime.timedelta(hours=-8))])))


PATHS = ['a', 'a/b', '/abs/p', '.', '..', 'rel/x.txt', '1e5', 'true', '1.5',
         'a b', 'é/ü', '~', 'yes/no', '-.5', '007']


# ---------------------------------------------------------------------------
# value specs
def fspec(x):
    return ['float', repr(float(x))]


def scalar_vspec(kind, hard=True, finite=False):
    if kind == 'str':
        return strings(hard).map(lambda s: ['str', s])
    if kind == 'int':
        return ints().map(lambda i: ['int', i])
    if kind == 'float':
        return floats(finite).map(fspec)
    if kind in ('bool', 'buf'):
        return st.booleans().map(lambda b: ['bool', b])
    if kind == 'none':
        return st.just(['none'])
    if kind == 'date':
        return st.one_of(
            dates().map(lambda d: ['date', d.isoformat()]),
            dates().map(lambda d: ['date', d.isoformat()]),
            datetimes().map(lambda d: ['datetime', d.isoformat()]))
    if kind == 'path':
        return st.sampled_from(PATHS).map(lambda p: ['path', p])
    raise ValueError(kind)


def plain_vspec(hard=True, finite=False, dates_ok=True, max_leaves=6, odicts=True):
    kinds = ['str', 'int', 'float', 'bool', 'none'] + (['date'] if dates_ok else [])
    leaf = st.one_of(*[scalar_vspec(k, hard, finite) for k in kinds])
    keys = st.one_of(st.sampled_from(KEY_STRINGS), strings(hard))
    return st.recursive(
        leaf,
        lambda ch: st.one_of(
            st.lists(ch, max_size=3).map(lambda l: ['list', l]),
            st.lists(st.tuples(keys, ch), max_size=3,
                     unique_by=lambda p: p[0]).map(
                lambda l: ['dict', [[['str', k], v] for k, v in l]]),
            *([st.lists(st.tuples(keys, ch), max_size=3,
                        unique_by=lambda p: p[0]).map(
                lambda l: ['odict', [[['str', k], v] for k, v in l]])] if odicts else [])),
        max_leaves=max_leaves)


def classes_by_name(spec):
    return {c['name']: c for c in spec['classes']}


def descendants(spec, name, registered_only=True):
    """Names of classes deriving (directly or not) from name, incl. itself."""
    by = classes_by_name(spec)
    out = [name]
    changed = True
    while changed:
        changed = False
        for c in spec['classes']:
            if c['name'] not in out and any(b in out for b in c.get('bases', [])):
                out.append(c['name'])
                changed = True
    return out


def instantiable(spec, name):
    by = classes_by_name(spec)
    return [n for n in descendants(spec, name)
            if by[n].get('reg', True) and not by[n].get('abstract')
            and by[n].get('kind', 'obj') == 'obj']


@st.composite
def vspec_for(draw, spec, t, hard=True, finite=False, depth=0, omit_defaults=True):
    """A value spec of type expr t for the model spec."""
    by = classes_by_name(spec)
    if t is None or t == 'any':
        return draw(plain_vspec(hard, finite, max_leaves=4))
    if isinstance(t, str):
        return draw(scalar_vspec(t, hard, finite))
    k = t[0]
    rec = lambda tt: vspec_for(spec, tt, hard, finite, depth + 1, omit_defaults)
    if depth > 6 and k in ('list', 'seq', 'mseq', 'dict', 'map', 'mmap', 'opt'):
        # recursive models: stop
        return {'list': ['list', []], 'seq': ['list', []], 'mseq': ['list', []],
                'opt': ['none']}.get(k, ['dict', []])
    if k in ('list', 'seq', 'mseq'):
        n = draw(st.integers(0, 3 if depth < 2 else 1))
        items = [draw(rec(t[1])) for _ in range(n)]
        return ['list', [x for x in items if x is not None]]
    if k in ('dict', 'map', 'mmap'):
        n = draw(st.integers(0, 3 if depth < 2 else 1))
        out = []
        seen = set()
        for _ in range(n):
            kv = draw(rec(t[1]))
            if kv is None:
                continue
            ks = kv[-1] if kv[0] in ('str', 'strlike') else repr(kv)
            if ks in seen:
                continue
            vv = draw(rec(t[2]))
            if vv is None:
                continue
            seen.add(ks)
            out.append([kv, vv])
        return ['dict', out]
    if k == 'opt':
        if draw(st.integers(0, 3)) == 0:
            return ['none']
        r = draw(rec(t[1]))
        return ['none'] if r is None else r
    if k == 'union':
        for mt in draw(st.permutations(t[1:])):
            r = draw(rec(mt))
            if r is not None:
                return r
        return None
    if k == 'ref':
        c = by[t[1]]
        kind = c.get('kind', 'obj')
        if kind == 'enum':
            return ['enum', c['name'], draw(st.sampled_from(c['members']))]
        if kind in ('strsub', 'userstring', 'ystring'):
            if c.get('init_raises') and draw(st.integers(0, 3)) == 0:
                # a value the class's constructor rejects
                return ['strlike', c['name'], draw(st.sampled_from(['bad', 'bad value', 'badge']))]
            return ['strlike', c['name'], draw(strings(hard))]
        cands = instantiable(spec, c['name'])
        if not cands:
            return None
        cn = draw(st.sampled_from(cands))
        cc = by[cn]
        kw = []
        if cc.get('index'):
            attr, keyp, kind, xn = cc['index']
            n = draw(st.integers(0, 3))
            kt = [p.get('type') for p in by[xn]['params'] if p['name'] == keyp][0]
            pool = ['p', 'q', 'r', 'k1', 'some_key', 'x y']
            mk = lambda key: ['str', key]
            if isinstance(kt, list) and kt[0] == 'ref':
                kc = by[kt[1]]
                if kc.get('kind') == 'enum':
                    pool = list(kc['members'])
                    n = min(n, len(pool))
                    mk = lambda key: ['enum', kc['name'], key]
                else:
                    mk = lambda key: ['strlike', kc['name'], key]
            keys = draw(st.lists(st.sampled_from(pool), min_size=n, max_size=n, unique=True))
            items = []
            for key in keys:
                xv = draw(rec(['ref', xn]))
                if xv is None:
                    continue
                xv = ['obj', xv[1], [[a, (mk(key) if a == keyp else b)]
                                     for a, b in xv[2]], xv[3]]
                items.append(xv if kind == 'list' else [['str', key], xv])
            kw.append([attr, ['list' if kind == 'list' else 'dict', items]])
            for p in cc.get('params', [])[1:]:
                if draw(st.booleans()):
                    kw.append([p['name'], draw(rec(p.get('type')))])
            return ['obj', cn, kw, None]
        fixed = {}
        if isinstance(cc.get('recognize'), list):
            fixed = {cl[1]: cl[2] for cl in cc['recognize'] if cl[0] == 'attr_value'}
        for p in cc.get('params', []):
            if p['name'] in fixed:
                kw.append([p['name'], list(fixed[p['name']])])
                continue
            if 'default' in p and omit_defaults and draw(st.booleans()):
                continue
            v = draw(rec(p.get('type')))
            if v is None:
                return None
            kw.append([p['name'], v])
        extra = None
        if cc.get('extra'):
            pn = {p['name'] for p in cc.get('params', [])}
            ex = draw(st.lists(st.tuples(
                st.sampled_from(['ex1', 'ex2', 'zz', 'some-extra', 'Key', 'self', 'cls']),
                plain_vspec(hard, finite, max_leaves=3)), max_size=2,
                unique_by=lambda p: p[0]))
            extra = [[a, b] for a, b in ex if a not in pn]
        return ['obj', cn, kw, extra]
    raise ValueError(t)


# ---------------------------------------------------------------------------
# projection of a value spec to a document Tree (what the docs say the YAML is)
def float_text(x):
    if math.isnan(x):
        return '.nan'
    if math.isinf(x):
        return '.inf' if x > 0 else '-.inf'
    r = repr(x)
    if 'e' in r and '.' not in r:
        m, e = r.split('e')
        r = m + '.0e' + e
    return r


def str_tree(s):
    if T.plain_safe(s) and T.resolve_plain(s) == T.TAGP + 'str':
        return T.S(s)
    return T.S(s, '"')


def project(v, spec=None):
    k = v[0]
    if k == 'str':
        return str_tree(v[1])
    if k == 'int':
        return T.S(str(v[1]))
    if k == 'float':
        return T.S(float_text(float(v[1])))
    if k == 'bool':
        return T.S('true' if v[1] else 'false')
    if k == 'none':
        return T.S('null')
    if k == 'date':
        return T.S(v[1])
    if k == 'datetime':
        return T.S(v[1].replace('T', ' '))
    if k == 'path':
        return str_tree(v[1])
    if k == 'list':
        return T.Q([project(x, spec) for x in v[1]])
    if k in ('dict', 'odict'):
        return ['m', [[project(a, spec), project(b, spec)] for a, b in v[1]], None]
    if k == 'enum':
        cc = classes_by_name(spec).get(v[1], {}) if spec else {}
        if ['scalar_upper'] in (cc.get('savorize') or []):
            return str_tree(v[2].lower())
        return str_tree(v[2])
    if k == 'strlike':
        return str_tree(v[2])
    if k == 'obj':
        cc = classes_by_name(spec).get(v[1], {}) if spec else {}
        if cc.get('index'):
            attr, keyp, kind, xn = cc['index']
            pairs = []
            for n, x in v[2]:
                if n != attr:
                    pairs.append([T.S(n), project(x, spec)])
                    continue
                inner = []
                items_ = [it if kind == 'list' else it[1] for it in x[1]]
                if any(not [b for a, b in xv[2] if a == keyp] for xv in items_):
                    # an item without its key attribute (a defaulted parameter that
                    # was left out): it cannot be written in the indexed form
                    pairs.append([T.S(n), project(x, spec)])
                    continue
                for it in x[1]:
                    xv = it if kind == 'list' else it[1]
                    key = [b for a, b in xv[2] if a == keyp][0]
                    rest = ['obj', xv[1], [[a, b] for a, b in xv[2] if a != keyp], xv[3]]
                    inner.append([project(key, spec), project(rest, spec)])
                pairs.append([T.S(n), ['m', inner, None]])
            return ['m', pairs, None]
        pairs = [[T.S(n), project(x, spec)] for n, x in v[2]]
        for a, b in (v[3] or []):
            pairs.append([str_tree(a), project(b, spec)])
        return ['m', pairs, None]
    raise ValueError(v)


# ---------------------------------------------------------------------------
# type expressions and models
PARAM_NAMES = ['a', 'b', 'c', 'x', 'y', 'some_key', 'n_1', 'val', 'items']
CLASS_NAMES = ['A', 'B', 'C', 'D', 'E', 'F']


@st.composite
def type_exprs(draw, refs_obj, refs_enum, refs_str, depth=2, feats=()):
    """refs_*: lists of class names available at this point."""
    scal = ['str', 'int', 'float', 'bool', 'none']
    if 'date' in feats:
        scal.append('date')
    if 'path' in feats:
        scal.append('path')
    choices = ['scalar', 'scalar']
    if refs_obj:
        choices += ['ref', 'ref', 'ref']
    if refs_enum:
        choices.append('enum')
    if refs_str:
        choices.append('strlike')
    if 'any' in feats:
        choices.append('any')
    if depth > 0:
        choices += ['list', 'dict', 'opt', 'union', 'union']
    c = draw(st.sampled_from(choices))
    sub = lambda d=depth - 1: type_exprs(refs_obj, refs_enum, refs_str, d, feats)
    if c == 'scalar':
        return draw(st.sampled_from(scal))
    if c == 'ref':
        return ['ref', draw(st.sampled_from(refs_obj))]
    if c == 'enum':
        return ['ref', draw(st.sampled_from(refs_enum))]
    if c == 'strlike':
        return ['ref', draw(st.sampled_from(refs_str))]
    if c == 'any':
        return 'any'
    if c == 'list':
        kind = draw(st.sampled_from(['list', 'list', 'seq', 'mseq'])) if 'abstract_containers' in feats else 'list'
        return [kind, draw(sub())]
    if c == 'dict':
        kind = draw(st.sampled_from(['dict', 'dict', 'map', 'mmap'])) if 'abstract_containers' in feats else 'dict'
        key = 'str'
        if refs_str and draw(st.integers(0, 3)) == 0:
            key = ['ref', draw(st.sampled_from(refs_str))]
        return [kind, key, draw(sub())]
    if c == 'opt':
        inner = draw(sub())
        if inner == 'none' or (isinstance(inner, list) and inner[0] in ('opt',)):
            inner = 'int'
        if inner == 'any' and 'opt_any' not in feats:
            inner = 'str'
        return ['opt', inner]
    # union: 2-3 distinct non-union members
    ms = []
    for _ in range(draw(st.integers(2, 3))):
        m = draw(sub(0 if depth <= 1 else depth - 1))
        if isinstance(m, list) and m[0] in ('union', 'opt'):
            m = 'int'
        if m == 'any' and 'opt_any' not in feats:
            m = 'float'
        if m not in ms:
            ms.append(m)
    if 'buf' in feats and 'bool' in ms and draw(st.booleans()):
        ms.insert(draw(st.integers(0, len(ms))), 'buf')
    if len(ms) == 1:
        return ms[0]
    return ['union'] + ms


def default_for(draw, t, refs=None):
    """A default value-spec compatible with type expr t (scalars/None only)."""
    if t is None or t == 'any':
        return draw(st.sampled_from([['none'], ['int', 3], ['str', 'dflt']]))
    if isinstance(t, str):
        return {
            'str': ['str', draw(st.sampled_from(['dflt', 'x', '', '1']))],
            'int': ['int', draw(st.sampled_from([0, 3, -1]))],
            'float': ['float', draw(st.sampled_from(['0.0', '1.5']))],
            'bool': ['bool', draw(st.booleans())],
            'buf': ['bool', False],
            'none': ['none'],
        }.get(t)
    if t[0] == 'opt':
        return ['none']
    if t[0] == 'union':
        for m in t[1:]:
            d = default_for(draw, m)
            if d is not None:
                return d
    return None


def add_hooks(draw, c, feats):
    req = [p['name'] for p in c['params'] if 'default' not in p]
    opt = [p for p in c['params'] if 'default' in p]
    names = [p['name'] for p in c['params']]
    if 'norecognize' not in feats and draw(st.booleans()):
        if 'permissive' in feats and draw(st.integers(0, 2)) == 0:
            c['recognize'] = 'permissive'
        else:
            cl = [['mapping']] if draw(st.booleans()) else []
            for r in req[:2]:
                cl.append(['attr', r])
            if names and draw(st.integers(0, 3)) == 0:
                cl.append(['attr_value_not', names[0], ['str', 'forbidden']])
            ints = [p['name'] for p in c['params'] if p.get('type') in ('int', 'float')]
            if ints and draw(st.integers(0, 2)) == 0:
                cl.append([draw(st.sampled_from(['attr_value_not', 'attr_value_not', 'attr_value'])),
                           draw(st.sampled_from(ints)), ['int', draw(st.sampled_from([-1, 0, 7]))]])
            c['recognize'] = cl
    ops = []
    pool = ['dashes_to_unders', 'set_default', 'raise_if_has', 'get_missing',
            'rename', 'word_to_int', 'int_add', 'int_add', 'raise_bare_if_has']
    if 'adversarial' in feats:
        pool += ['to_scalar', 'to_seq', 'set_wrong', 'set_wrong']
    for _ in range(draw(st.integers(0, 2))):
        k = draw(st.sampled_from(pool))
        if k == 'dashes_to_unders':
            ops.append([k])
        elif k == 'set_default' and opt:
            p = draw(st.sampled_from(opt))
            ops.append([k, p['name'], p['default']])
        elif k in ('raise_if_has', 'raise_bare_if_has'):
            ops.append([k, draw(st.sampled_from(['zz', 'k'] + names))])
        elif k == 'get_missing':
            ops.append([k, draw(st.sampled_from(['zz'] + names))])
        elif k == 'rename' and names:
            ops.append([k, 'alias', draw(st.sampled_from(names))])
        elif k == 'word_to_int':
            ip = [p['name'] for p in c['params'] if p.get('type') == 'int']
            if ip:
                ops.append([k, ip[0], [['seven', 7], ['x', 1]]])
        elif k == 'int_add':
            # not idempotent (e.g. 1-based in the file, 0-based in memory)
            ip = [p['name'] for p in c['params'] if p.get('type') == 'int']
            if ip:
                ops.append([k, draw(st.sampled_from(ip)), draw(st.sampled_from([-1, 10]))])
        elif k == 'to_scalar':
            ops.append([k, draw(st.sampled_from([['str', 'x'], ['int', 1]]))])
        elif k == 'to_seq':
            ops.append([k])
        elif k == 'set_wrong' and names:
            ops.append([k, draw(st.sampled_from(names)), draw(st.sampled_from(
                [['str', 'wrong'], ['int', 99], ['none'], ['bool', True], ['float', '2.5']]))])
    if ops:
        c['savorize'] = ops


def mro_ok(classes):
    """Python can linearise the hierarchy (abc.ABC bases included)."""
    import abc
    built = {}
    try:
        for c in classes:
            if c.get('kind', 'obj') != 'obj':
                continue
            bases = tuple(built[b] for b in c.get('bases', []))
            if c.get('abstract') == 'abc':
                bases = bases + (abc.ABC,)
            built[c['name']] = type(c['name'], bases, {})
    except TypeError:
        return False
    return True


def add_sweeten(draw, classes, feats):
    """Declarative _yatiml_sweeten hooks; with 'inverse' in feats each op gets
    the inverse _yatiml_savorize op (applied in reverse order)."""
    inverse = 'inverse' in feats
    by = {c['name']: c for c in classes}

    def below(n):
        out = [n]
        for c in classes:
            if c['name'] not in out and any(b in out for b in c.get('bases', [])):
                out.append(c['name'])
        return out
    for c in classes:
        if c.get('kind', 'obj') != 'obj' or c.get('index') or c.get('recognize') \
                or c.get('savorize') or draw(st.integers(0, 2)) != 0:
            continue
        opt = [p for p in c['params'] if 'default' in p]
        names = [p['name'] for p in c['params']]
        ops, inv = [], []
        kinds = draw(st.lists(st.sampled_from(
            ['remove_defaults', 'unders_to_dashes', 'rename', 'add', 'attrs', 'hidden',
             'remove', 'int_add', 'int_add']), min_size=1, max_size=3, unique=True))
        for k in kinds:
            if k == 'remove_defaults' and opt:
                ops.append(['remove_defaults'])
                if draw(st.integers(0, 3)) == 0 and below(c['name']) == [c['name']]:
                    p = draw(st.sampled_from(opt))
                    if p['default'][0] in ('int', 'str', 'bool', 'none'):
                        c['defaults_override'] = [[p['name'], draw(st.sampled_from(
                            [p['default'], ['int', 7], ['str', 'ov']]))]]
            elif k == 'unders_to_dashes':
                if any(by[d].get('extra') for d in below(c['name'])):
                    continue
                ops.append(['unders_to_dashes'])
                inv.append(['dashes_to_unders'])
            elif k == 'rename' and opt:
                p = draw(st.sampled_from(opt))
                alias = 'al' + p['name'].replace('_', '').capitalize() + c['name']
                ops.append(['rename', p['name'], alias])
                inv.append(['rename', alias, p['name']])
            elif k == 'add':
                nm = 'marker' + c['name']
                ops.append(['add', nm, draw(st.sampled_from(
                    [['str', 'v1'], ['int', 2], ['bool', True], ['none'], ['float', '1.5'],
                     ['float', 'inf'], ['float', '-inf'], ['float', 'nan'], ['float', '1e+22']]))])
                inv.append(['remove', nm])
            elif k == 'attrs' and names and not c.get('extra') and below(c['name']) == [c['name']]:
                if inverse:
                    c['attrs_hook'] = list(draw(st.permutations(names)))
                else:
                    sub = draw(st.lists(st.sampled_from(names), unique=True, max_size=len(names)))
                    c['attrs_hook'] = list(sub)
            elif k == 'int_add':
                # not idempotent: 1-based in the file, 0-based in memory
                ints = [p['name'] for p in c['params'] if p.get('type') == 'int']
                if ints:
                    pn = draw(st.sampled_from(ints))
                    ops.append(['int_add', pn, 1])
                    inv.append(['int_add', pn, -1])
            elif k == 'hidden':
                c['hidden'] = True
            elif k == 'remove' and opt and not inverse:
                ops.append(['remove', draw(st.sampled_from(opt))['name']])
        if ops:
            c['sweeten'] = ops
            if inverse and inv:
                c['savorize'] = inv[::-1]


@st.composite
def models(draw, feats=(), max_classes=5, doc_type=None):
    """Model spec strategy.

    feats (tuple of flags): 'hier' hierarchies, 'abstract', 'unreg', 'extra',
    'enum', 'strlike', 'any', 'untyped', 'date', 'path', 'buf',
    'abstract_containers', 'opt_any', 'defaults', 'dashed', 'multi'
    (multiple inheritance join), 'trap' (registered class nothing refers to).
    """
    n = draw(st.integers(1, max_classes))
    classes = []
    objs, enums, strs = [], [], []
    used_param_sets = []
    for i in range(n):
        name = CLASS_NAMES[i]
        kinds = ['obj'] * 4
        if 'enum' in feats:
            kinds.append('enum')
        if 'strlike' in feats:
            kinds.append('strlike')
        kind = draw(st.sampled_from(kinds)) if i > 0 or n == 1 else draw(st.sampled_from(kinds))
        if kind == 'enum':
            members = draw(st.sampled_from([
                ['red', 'green'], ['red', 'true'], ['RED', 'Green', 'blue'],
                ['yes', 'no'], ['a1', 'null']]))
            ec = {'name': name, 'kind': 'enum', 'members': members}
            if draw(st.integers(0, 2)) == 0:
                ec['str_mixin'] = True      # class X(str, enum.Enum): still an enum
            if 'sweeten' in feats and draw(st.integers(0, 2)) == 0:
                ec['sweeten'] = []          # hooks that only log
                ec['savorize'] = []
            elif ('sweeten' in feats or 'hooks' in feats) and draw(st.integers(0, 2)) == 0:
                # the documentation's enum_lowercase recipe: upper-case members,
                # lower case in the file, converted with Node.set_value()
                ec['members'] = draw(st.sampled_from([['RED', 'GREEN'], ['RED', 'TRUE'], ['ON', 'NULL', 'A1']]))
                ec['savorize'] = [['scalar_upper']]
                if 'sweeten' in feats:
                    ec['sweeten'] = [['scalar_lower']]
            classes.append(ec)
            enums.append(name)
            continue
        if kind == 'strlike':
            sk = draw(st.sampled_from(['strsub', 'userstring', 'ystring']))
            c = {'name': name, 'kind': sk}
            if draw(st.integers(0, 3)) == 0:
                c['init_raises'] = ['startswith', 'value', 'bad', draw(st.sampled_from(
                    ['ValueError', 'ValueError', 'KeyError', 'TypeError', 'RuntimeError',
                     'AttributeError', 'ZeroDivisionError', 'IndexError']))]
            classes.append(c)
            strs.append(name)
            continue
        c = {'name': name, 'kind': 'obj', 'bases': [], 'params': []}
        base = None
        sibs = []
        if 'multi' in feats:
            byn = {x['name']: x for x in classes}
            sibs = [(a, b) for a in objs for b in objs if a < b and
                    set(byn[a].get('bases', [])) & set(byn[b].get('bases', []))]
        if 'hier' in feats and sibs and draw(st.integers(0, 2)) == 0:
            # a diamond: the new class derives from two classes that share a base
            base, other = draw(st.sampled_from(sibs))
            c['bases'] = list(draw(st.permutations([base, other])))
            by = {x['name']: x for x in classes}
            for b in c['bases']:
                for p in by[b]['params']:
                    if p['name'] not in [q['name'] for q in c['params']]:
                        c['params'].append(copy.deepcopy(p))
        elif 'hier' in feats and objs and draw(st.integers(0, 2)) > 0:
            base = draw(st.sampled_from(objs))
            c['bases'] = [base]
            if 'multi' in feats and len(objs) >= 2 and draw(st.integers(0, 4)) == 0:
                other = draw(st.sampled_from([o for o in objs if o != base]))
                by = {x['name']: x for x in classes}
                # join classes of which neither derives from the other (no MRO
                # conflicts); they may share an ancestor (a diamond)
                if base not in descendants({'classes': classes}, other) and \
                        other not in descendants({'classes': classes}, base):
                    c['bases'] = [base, other]
            by = {x['name']: x for x in classes}
            for b in c['bases']:
                for p in by[b]['params']:
                    if p['name'] not in [q['name'] for q in c['params']]:
                        c['params'].append(copy.deepcopy(p))
        taken = [p['name'] for p in c['params']]
        # avoid referring to own ancestors' descendants -> keep a DAG: only
        # refer to classes defined earlier that are not ancestors
        anc = set()
        stack = list(c['bases'])
        by = {x['name']: x for x in classes}
        while stack:
            b = stack.pop()
            anc.add(b)
            stack += by[b].get('bases', [])
        refs = [o for o in objs if o not in anc]
        if 'recursive' in feats and anc and draw(st.integers(0, 1)) == 0:
            # e.g. Assembly(Part) with parts: List[Part]
            a = draw(st.sampled_from(sorted(anc)))
            avail = [x for x in PARAM_NAMES if x not in taken]
            if avail:
                pn = draw(st.sampled_from(avail))
                taken.append(pn)
                c['params'].append({'name': pn, 'type': draw(st.sampled_from(
                    [['list', ['ref', a]], ['opt', ['ref', a]], ['dict', 'str', ['ref', a]]])),
                    'default': ['none'] if draw(st.booleans()) else None})
                if c['params'][-1]['default'] is None:
                    del c['params'][-1]['default']
                elif c['params'][-1]['type'][0] != 'opt':
                    c['params'][-1]['type'] = ['opt', c['params'][-1]['type']]
        nnew = draw(st.integers(0 if base else 1, 3 if not base else 2))
        for _ in range(nnew):
            avail = [x for x in PARAM_NAMES if x not in taken]
            if not avail:
                break
            pn = draw(st.sampled_from(avail))
            taken.append(pn)
            t = draw(type_exprs(refs, enums, strs, 2, feats))
            p = {'name': pn, 'type': t}
            if 'untyped' in feats and draw(st.integers(0, 6)) == 0:
                p['type'] = None
            if 'defaults' in feats and draw(st.integers(0, 2)) == 0:
                d = default_for(draw, p['type'])
                if d is not None:
                    p['default'] = d
            c['params'].append(p)
        if 'underscore' in feats and '_id' not in taken and draw(st.integers(0, 2)) == 0:
            # a parameter whose name starts with an underscore is an ordinary
            # attribute (only _yatiml_extra is special)
            p = {'name': '_id', 'type': draw(st.sampled_from(
                ['int', 'int', ['list', 'int'], ['opt', 'int'], ['dict', 'str', 'int'], 'str']))}
            if draw(st.booleans()):
                d = default_for(draw, p['type'])
                if d is not None:
                    p['default'] = d
            c['params'].append(p)
        # required parameters must precede defaulted ones
        c['params'] = ([p for p in c['params'] if 'default' not in p]
                       + [p for p in c['params'] if 'default' in p])
        if 'extra' in feats and draw(st.integers(0, 3)) == 0:
            c['extra'] = draw(st.sampled_from(['required', 'default', 'default_first']))
        if 'abstract' in feats and draw(st.integers(0, 4)) == 0:
            c['abstract'] = draw(st.sampled_from(['abc', 'method']))
        if 'unreg' in feats and draw(st.integers(0, 5)) == 0:
            c['reg'] = False
        if 'raises' in feats and draw(st.integers(0, 3)) == 0:
            exc = draw(st.sampled_from(['ValueError', 'KeyError', 'TypeError',
                                        'RuntimeError', 'AttributeError',
                                        'IndexError', 'ZeroDivisionError']))
            ip = [p['name'] for p in c['params'] if p.get('type') in ('int', 'float')]
            if ip and draw(st.booleans()):
                c['init_raises'] = ['neg', draw(st.sampled_from(ip)), exc]
            else:
                c['init_raises'] = ['always', exc]
        if 'hooks' in feats and draw(st.integers(0, 2)) == 0:
            add_hooks(draw, c, feats)
        if len(c['bases']) > 1 and not mro_ok(classes + [c]):
            c['bases'] = c['bases'][:1]
        classes.append(c)
        objs.append(name)
    if 'seasoned' in feats and draw(st.integers(0, 1)) == 0:
        cands = []
        for c in classes:
            if c.get('kind', 'obj') == 'obj' and not c.get('abstract') and \
                    c.get('reg', True) and not c.get('recognize'):
                for p in c['params']:
                    if 'default' in p:
                        continue
                    t = p.get('type')
                    if t == 'str':
                        cands.append((c['name'], p['name']))
                    elif isinstance(t, list) and t[0] == 'ref':
                        # the key attribute is an enum or a string-like class:
                        # the key scalar is then read twice, as a str key and
                        # as an object of that class
                        kc = [k for k in classes if k['name'] == t[1]][0]
                        if kc.get('kind') in ('enum', 'strsub', 'userstring', 'ystring') \
                                and not kc.get('init_raises') and not kc.get('savorize') \
                                and kc.get('reg', True):
                            cands += [(c['name'], p['name'])] * 2
        if not cands:
            # give some class an identifying attribute
            elig = [c for c in classes if c.get('kind', 'obj') == 'obj' and not c.get('abstract')
                    and c.get('reg', True) and not c.get('recognize') and not c.get('savorize')
                    and 'ident' not in [p['name'] for p in c['params']]
                    and not any(c['name'] in k.get('bases', []) for k in classes)]
            if elig:
                c = draw(st.sampled_from(elig))
                keyt = 'str'
                before = classes[:[k['name'] for k in classes].index(c['name'])]
                kcs = [k['name'] for k in before if k.get('kind') in ('enum', 'strsub', 'userstring', 'ystring')
                       and not k.get('init_raises') and not k.get('savorize') and k.get('reg', True)]
                if kcs and draw(st.booleans()):
                    keyt = ['ref', draw(st.sampled_from(kcs))]
                c['params'].insert(0, {'name': 'ident', 'type': keyt})
                cands.append((c['name'], 'ident'))
        if cands:
            xn, pn = draw(st.sampled_from(cands))
            kind = draw(st.sampled_from(['dict', 'list']))
            sc = {'name': 'S', 'kind': 'obj', 'bases': [], 'params': [
                {'name': 'items', 'type': (['dict', 'str', ['ref', xn]]
                                           if kind == 'dict' else ['list', ['ref', xn]])}],
                  'index': ['items', pn, kind, xn],
                  # the sugared form does not match the signature, so (as in the
                  # documentation's recipes) recognition is declared by hand
                  'recognize': [['mapping'], ['attr', 'items']]}
            if kind == 'dict':
                sc['savorize'] = [['map_to_index', 'items', pn, None]]
                sc['sweeten'] = [['index_to_map', 'items', pn, None]]
            else:
                sc['savorize'] = [['map_to_seq', 'items', pn, None]]
                sc['sweeten'] = [['seq_to_map', 'items', pn, None]]
            if draw(st.booleans()):
                sc['params'].append({'name': 'note', 'type': 'any', 'default': ['none']})
            if draw(st.booleans()):
                # a second way to reach one of the items (e.g. "the current one")
                sc['params'].append({'name': 'first', 'type': ['opt', ['ref', xn]], 'default': ['none']})
            classes.append(sc)
            objs.append('S')
    force_doc = None
    if 'scalarized' in feats and draw(st.integers(0, 3)) == 0:
        # the documentation's "Postcode" recipe: an object written as one string
        classes.append({'name': 'Z', 'kind': 'obj', 'bases': [], 'params': [
            {'name': 'text', 'type': 'str'}],
            'recognize': [['scalar', ['str']]],
            'savorize': [['scalar_to_map', 'text']],
            'sweeten': [['map_to_scalar', 'text']]})
        if draw(st.integers(0, 2)) == 0:
            # the text may be absent: the object is then written as a null
            classes[-1].update({'params': [{'name': 'text', 'type': ['opt', 'str']}],
                                'recognize': [['scalar', ['str', 'none']]],
                                'savorize': [['scalar_to_map_opt', 'text']],
                                'sweeten': [['map_to_scalar_opt', 'text']]})
        objs.append('Z')
        z = ['ref', 'Z']
        force_doc = draw(st.sampled_from([None, ['list', z], ['dict', 'str', z], ['list', ['opt', z]], z]))
    if 'sweeten' in feats:
        add_sweeten(draw, classes, feats)
    if 'discriminator' in feats:
        for c in classes:
            if c.get('kind', 'obj') == 'obj' and not c.get('recognize') and \
                    not c.get('index') and draw(st.integers(0, 3)) == 0 and \
                    'kind' not in [p['name'] for p in c['params']]:
                c['params'].insert(0, {'name': 'kind', 'type': 'str'})
                c['recognize'] = [['attr_value', 'kind', ['str', draw(st.sampled_from(
                    [c['name'].lower(), 'circle', 'k1']))]]]
    if 'trap' in feats:
        classes.append({'name': 'Trap', 'kind': 'obj', 'bases': [], 'params': [
            {'name': 'a', 'type': 'int', 'default': ['int', 0]}]})
    spec = {'classes': classes}
    reg_objs = [o for o in objs]
    if doc_type is not None:
        spec['doc_type'] = doc_type
    elif force_doc is not None:
        spec['doc_type'] = force_doc
    else:
        top = []
        if reg_objs:
            top = [['ref', reg_objs[-1]]] * 3 + [['ref', draw(st.sampled_from(reg_objs))]]
        spec['doc_type'] = draw(st.one_of(
            *([st.sampled_from(top)] * 2 if top else []),
            type_exprs(reg_objs, enums, strs, 2, feats)))
        if spec['doc_type'] == 'none':
            spec['doc_type'] = ['opt', 'int']
    names = [c['name'] for c in classes]
    spec['order'] = draw(st.permutations(names))
    return spec


def case_hook_enum(spec, name, sweeten=False):
    """Turn enum `name` of a (deep-copied) spec into the documentation's
    enum_lowercase recipe: upper-case members, lower case in the file."""
    for c in spec['classes']:
        if c['name'] == name and c.get('kind') == 'enum' and not c.get('savorize'):
            c['members'] = [m.upper() for m in c['members']]
            if len(set(c['members'])) != len(c['members']):
                return
            c['savorize'] = [['scalar_upper']]
            if sweeten:
                c['sweeten'] = [['scalar_lower']]
    for c in spec['classes']:
        for p in c.get('params', []):
            d = p.get('default')
            if d and d[0] == 'enum' and d[1] == name:
                d[2] = d[2].upper()


def referenced_classes(spec):
    out = set()

    def go(t):
        if isinstance(t, list):
            if t[0] == 'ref':
                out.add(t[1])
            for x in t[1:]:
                go(x)
    go(spec['doc_type'])
    for c in spec['classes']:
        for p in c.get('params', []):
            go(p.get('type'))
    return out


# ---------------------------------------------------------------------------
# document trees
def vocab(spec):
    keys = set(KEY_STRINGS[:4])
    for c in spec['classes']:
        for p in c.get('params', []):
            keys.add(p['name'])
            if '_' in p['name']:
                keys.add(p['name'].replace('_', '-'))
    scal = ['1', 'x', 'true', '1.5', '~', '"1"', '2001-01-01', 'null', '0']
    for c in spec['classes']:
        for m in c.get('members', []):
            scal.append(m)
    return sorted(keys), scal


def scalar_trees(spec):
    _, scal = vocab(spec)
    def mk(s):
        if s.startswith('"'):
            return T.S(s[1:-1], '"')
        return T.S(s)
    return st.one_of(st.sampled_from(scal).map(mk),
                     strings(True).map(str_tree))


def random_trees(spec, max_leaves=6):
    keys, _ = vocab(spec)
    return st.recursive(
        scalar_trees(spec),
        lambda ch: st.one_of(
            st.lists(ch, max_size=3).map(lambda l: T.Q(l)),
            st.lists(st.tuples(st.sampled_from(keys), ch), max_size=4,
                     unique_by=lambda p: p[0]).map(
                lambda l: T.M(l))),
        max_leaves=max_leaves)


CORE_TAGS = ['!!str', '!!int', '!!float', '!!bool', '!!null', '!!timestamp',
             '!!binary', '!!set', '!!omap', '!!pairs', '!!seq', '!!map']
PY_TAGS = ['!!python/object:yv_canary.Thing', '!!python/object/apply:yv_canary.boom',
           '!!python/object/new:yv_canary.Thing', '!!python/name:yv_canary.boom',
           '!!python/module:yv_canary', '!!python/object/apply:os.getcwd',
           '!!python/tuple', '!!python/unicode', '!!python/dict']


def tag_pool(spec):
    names = ['!' + c['name'] for c in spec['classes']]
    return names * 2 + ['!Unknown', '!Path', '!', '!str', '!bool_union_fix'] + CORE_TAGS + PY_TAGS


@st.composite
def mutate(draw, spec, t, n=None, tags=False, kinds=None):
    """Apply 1..n random local mutations to a tree."""
    n = n if n is not None else draw(st.integers(1, 2))
    keys, scal = vocab(spec)
    applied = []
    for _ in range(n):
        subs = list(T.subtrees(t))
        path, sub = draw(st.sampled_from(subs))
        opts = ['replace_scalar', 'swap_kind']
        if sub[0] == 'm':
            opts += ['drop_key', 'dup_key', 'rename_key', 'dash_key', 'add_key',
                     'add_key', 'drop_key', 'merge_split']
        if sub[0] == 'q':
            opts += ['add_item', 'drop_item']
        if sub[0] == 's':
            opts += ['replace_scalar', 'requote']
        if tags or (kinds and 'tag' in kinds):
            opts += ['tag', 'tag', 'tag']
        if kinds:
            opts = [o for o in opts if o in kinds] or ['replace_scalar']
        op = draw(st.sampled_from(opts))
        applied.append(op)
        new = copy.deepcopy(sub)
        if op == 'replace_scalar':
            new = draw(scalar_trees(spec))
        elif op == 'requote':
            new[2] = draw(st.sampled_from(['', '"', "'"]))
        elif op == 'swap_kind':
            new = draw(st.sampled_from([T.Q([]), T.M([]), T.Q([copy.deepcopy(sub)]),
                                        T.M([('a', copy.deepcopy(sub))]), T.S('x')]))
        elif op == 'drop_key' and new[1]:
            new[1].pop(draw(st.integers(0, len(new[1]) - 1)))
        elif op == 'dup_key' and new[1]:
            i = draw(st.integers(0, len(new[1]) - 1))
            new[1].append(copy.deepcopy(new[1][i]))
        elif op == 'rename_key' and new[1]:
            i = draw(st.integers(0, len(new[1]) - 1))
            new[1][i][0] = T.S(draw(st.sampled_from(keys + ['zz', 'Xx'])))
        elif op == 'dash_key' and new[1]:
            i = draw(st.integers(0, len(new[1]) - 1))
            k = new[1][i][0]
            if k[0] == 's':
                k[1] = k[1].replace('_', '-')
        elif op == 'merge_split' and new[1]:
            # move some pairs into a YAML merge key: {<<: {moved...}, rest...}
            k = draw(st.integers(1, len(new[1])))
            idx = draw(st.lists(st.integers(0, len(new[1]) - 1), min_size=k, max_size=k,
                                unique=True))
            moved = [copy.deepcopy(new[1][i]) for i in sorted(idx)]
            if draw(st.booleans()):
                j = draw(st.integers(0, len(moved) - 1))
                v = moved[j][1]
                if v[0] == 's' and not v[2] and v[1].lstrip('-').isdigit() and draw(st.booleans()):
                    # a bool where an int was: isinstance(True, int) holds in Python
                    moved[j][1] = T.S(draw(st.sampled_from(['true', 'false'])))
                else:
                    moved[j][1] = draw(scalar_trees(spec))
            rest = [pr for i, pr in enumerate(new[1]) if i not in idx]
            new[1] = [[T.S('<<'), T.M(moved)]] + rest
        elif op == 'add_key':
            new[1].insert(draw(st.integers(0, len(new[1]))),
                          [T.S(draw(st.sampled_from(keys + ['zz']))),
                           draw(random_trees(spec, 2))])
        elif op == 'add_item':
            new[1].insert(draw(st.integers(0, len(new[1]))), draw(random_trees(spec, 2)))
        elif op == 'drop_item' and new[1]:
            new[1].pop(draw(st.integers(0, len(new[1]) - 1)))
        elif op == 'tag':
            tg = draw(st.sampled_from(tag_pool(spec)))
            if new[0] == 's':
                new[3] = tg
            elif new[0] in 'qm':
                new[2] = tg
        t = T.set_at(t, path, new)
    return t, applied


def respell_numbers(draw, t):
    """Other spellings of the same float for plain float scalars: what repr(),
    json.dumps and '%e' write (1e-05, 1E-05, +1e-05, 1.e-05, 1.000000e-05), a
    leading '+', a bare trailing dot. The value does not change."""
    from yv import spec12
    sites = [(p, s) for p, s in T.subtrees(t)
             if s[0] == 's' and not s[2] and not s[3] and spec12.is_float(s[1])]
    if not sites or draw(st.integers(0, 2)) > 0:
        return t
    for p, s in sites:
        try:
            x = float(s[1])
        except ValueError:
            continue
        if x != x or x in (float('inf'), float('-inf')):
            continue
        r = repr(x)
        cands = [r, r.upper(), '%e' % x if float('%e' % x) == x else r,
                 ('+' + r) if x >= 0 and r[0] != '-' else r, s[1]]
        if 'e' in r and '.' not in r:
            cands.append(r.replace('e', '.e'))
        if r.endswith('.0'):
            cands.append(r[:-1])                # '5.'
        if r.startswith('0.') and len(r) > 2:
            cands.append(r[1:])                 # '.5'
        new = draw(st.sampled_from(cands))
        if spec12.is_float(new) and float(new) == x:
            t = T.set_at(t, p, T.S(new))
    return t


@st.composite
def doc_for(draw, spec, tags=False, hard=False, mutations=True):
    """(tree, origin) - a document for the model: a projected value of the
    document type, optionally mutated, or a random tree."""
    c = draw(st.integers(0, 9))
    if c <= 6:
        v = draw(vspec_for(spec, spec['doc_type'], hard=hard))
        if v is not None:
            t = project(v, spec)
            origin = 'value'
            t = respell_numbers(draw, t)
            if mutations and (c >= 3 or tags):
                t, ops = draw(mutate(spec, t, tags=tags))
                origin = 'mutated:' + '+'.join(ops)
            return t, origin
    t = draw(random_trees(spec))
    origin = 'random'
    if tags:
        t, ops = draw(mutate(spec, t, tags=True, kinds=['tag']))
        origin = 'random+tag'
    return t, origin


@st.composite
def share(draw, t, groups=None):
    """Introduce 1-3 anchor/alias pairs into tree t: either two structurally
    equal subtrees are shared, or a subtree is referenced from another position
    (so that one node lands at positions of different declared types)."""
    info = []
    for gi in range(draw(st.integers(1, 3)) if groups is None else groups):
        subs = [(p, s) for p, s in T.subtrees(t) if p and s[0] in 'sqm'
                and T.get_at(t, p[:-1])[0] != '&']
        if len(subs) < 2:
            break
        mode = draw(st.sampled_from(['equal', 'copy', 'copy', 'copy_scalar']))
        name = 'n%d' % gi
        if mode == 'equal':
            groups_ = {}
            for idx, (p, s) in enumerate(subs):
                groups_.setdefault(repr(s), []).append(idx)
            cands = [g for g in groups_.values() if len(g) >= 2]
            if not cands:
                mode = 'copy'
            else:
                g = draw(st.sampled_from(cands))
                i, j = g[0], draw(st.sampled_from(g[1:]))
        if mode == 'copy_scalar':
            # values only (not keys), scalars only
            sc = [k for k, (p, s) in enumerate(subs) if s[0] == 's' and p[-1] != 0]
            if len(sc) >= 2:
                i, j = sorted(draw(st.lists(st.sampled_from(sc), min_size=2, max_size=2,
                                            unique=True)))
            else:
                mode = 'copy'
        if mode == 'copy':
            i = draw(st.integers(0, len(subs) - 2))
            j = draw(st.integers(i + 1, len(subs) - 1))
        (p, s), (q, s2) = subs[i], subs[j]
        # the anchored subtree may itself contain aliases to earlier anchors
        # (an aliased collection with an alias inside), but no anchor definitions
        if q[:len(p)] == p or "'&'" in repr(s) or "'*'" in repr(s2) or "'&'" in repr(s2):
            continue
        t = T.set_at(t, q, ['*', name])
        t = T.set_at(t, p, ['&', name, s])
        info.append({'mode': mode, 'kind': s[0], 'from': list(p), 'to': list(q)})
    return t, info
