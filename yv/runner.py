"""Runner: shards a property's phases over processes, buckets and shrinks
failures, writes replay files and evidence.  See DESIGN.md section 3.4.

    python -m yv.runner <ID> [--tier quick|thorough] [--replay FILE]
                        [--shards N] [--scale F]

Exit codes: 0 property held on everything explored (KNOWN-FINDING lines for
listed open findings), 1 + "VIOLATION property=<ID> replay=<path>", 2 harness
error.
"""
import argparse
import importlib
import json
import multiprocessing
import os
import sys
import time
import traceback

from yv.common import Ctx, Violation, jhash, short

ROOT = os.path.dirname(os.path.dirname(os.path.abspath(__file__)))


class HarnessAbort(BaseException):
    pass


class HypPhase:
    """Hypothesis-driven phase: `strategy` yields JSON-able cases."""
    kind = 'hypothesis'

    def __init__(self, name, strategy, examples):
        self.name, self.strategy, self.examples = name, strategy, examples


class StatefulPhase:
    """Hypothesis rule-based state machine: factory(ctx) -> machine class. The
    machine keeps ctx.current_case = {'history': [...]} up to date so that a
    failing history becomes the replay file."""
    kind = 'stateful'

    def __init__(self, name, factory, examples, steps):
        self.name, self.factory, self.examples, self.steps = name, factory, examples, steps


class EnumPhase:
    """Exhaustive enumeration: gen(shard, nshards) yields JSON-able cases."""
    kind = 'enumeration'

    def __init__(self, name, gen, note='', exhaustive=True):
        self.name, self.gen, self.note, self.exhaustive = name, gen, note, exhaustive


def load_known():
    path = os.path.join(ROOT, 'known_findings.json')
    with open(path) as f:
        data = json.load(f)
    return data


def known_open_for(prop_id, data):
    out = {}
    for e in data.get('open', []):
        if e['property'] == prop_id:
            out[e['signature']] = e
    return out


def load_prop(prop_id):
    return importlib.import_module('yv.props.' + prop_id.lower())


def make_runner(prop, ctx):
    def run_case(case):
        h = jhash(case)
        if ctx.shrink_deadline is not None and time.time() > ctx.shrink_deadline:
            if h in ctx.fail_cases:
                raise Violation(ctx.fail_cases[h])
            return
        if ctx.out_of_time() and ctx.target_sig is None:
            ctx.skipped_budget += 1
            return
        ctx.current_case = case
        ctx.evaluations += 1
        try:
            prop.check(case, ctx)
        except Violation as v:
            sig = v.finding['signature']
            if ctx.target_sig is None:
                ctx.target_sig = sig
                ctx.shrink_deadline = time.time() + ctx.shrink_budget
                ctx.first_fail = (case, v.finding)
            if sig != ctx.target_sig:
                # another root cause met while shrinking: keep it (unshrunk)
                ctx.other_violations.setdefault(sig, (case, v.finding))
                return
            ctx.fail_cases[h] = v.finding
            ctx.best_fail = (case, v.finding)
            raise
        except RecursionError:
            raise
        except Exception:
            ctx.harness_error = traceback.format_exc()
            raise HarnessAbort()
    return run_case


def run_shard(args):
    prop_id, tier, seed, shard, nshards, deadline, scale = args
    import hypothesis
    from hypothesis import HealthCheck, given, settings
    sys.setrecursionlimit(3000)
    import warnings
    warnings.filterwarnings('ignore', category=hypothesis.errors.HypothesisWarning)
    prop = load_prop(prop_id)
    known = load_known()
    ctx = Ctx(prop_id, known_open_for(prop_id, known), deadline=deadline)
    ctx.target_sig = None
    ctx.other_violations = {}
    ctx.harness_error = None
    ctx.first_fail = None
    ctx.best_fail = None
    ctx.shrink_budget = 45.0 if tier == 'quick' else 240.0
    run_case = make_runner(prop, ctx)
    violations = []
    phase_stats = []
    t0 = time.time()
    try:
        for pi, ph in enumerate(prop.phases(tier)):
            ev0 = ctx.evaluations
            ctx.target_sig = None
            ctx.shrink_deadline = None
            ctx.fail_cases = {}
            ctx.best_fail = None
            if ph.kind == 'enumeration':
                seen = {}
                for case in ph.gen(shard, nshards):
                    if ctx.out_of_time():
                        ctx.skipped_budget += 1
                        continue
                    ctx.current_case = case
                    ctx.evaluations += 1
                    try:
                        prop.check(case, ctx)
                    except Violation as v:
                        sig = v.finding['signature']
                        old = seen.get(sig)
                        size = len(json.dumps(case, default=repr))
                        if old is None or size < old[0]:
                            seen[sig] = (size, case, v.finding)
                    except Exception:
                        ctx.harness_error = traceback.format_exc()
                        raise HarnessAbort()
                for sig, (_, case, f) in seen.items():
                    violations.append((ph.name, case, f, True))
            elif ph.kind == 'stateful':
                from hypothesis.stateful import run_state_machine_as_test
                n = max(1, int(ph.examples * scale))
                sd = (seed * 1000003 + shard * 1009 + pi * 17) % (2 ** 63)
                machine = hypothesis.seed(sd)(ph.factory(ctx))
                try:
                    run_state_machine_as_test(machine, settings=settings(
                        max_examples=n, stateful_step_count=ph.steps,
                        deadline=None, database=None, derandomize=False,
                        report_multiple_bugs=False, print_blob=False,
                        suppress_health_check=list(HealthCheck)))
                except Violation as v:
                    case, f = ctx.last_violation
                    violations.append((ph.name, case, f, True))
                except hypothesis.errors.Flaky:
                    # a violation that corrupts process-global state makes later
                    # executions behave differently; report the violation seen
                    if ctx.last_violation is None:
                        raise
                    case, f = ctx.last_violation
                    violations.append((ph.name, case, f, False))
            else:
                n = max(1, int(ph.examples * scale))
                sd = (seed * 1000003 + shard * 1009 + pi * 17) % (2 ** 63)

                @hypothesis.seed(sd)
                @settings(max_examples=n, deadline=None, database=None,
                          derandomize=False, report_multiple_bugs=False,
                          suppress_health_check=list(HealthCheck),
                          print_blob=False)
                @given(ph.strategy)
                def test(case):
                    run_case(case)
                try:
                    test()
                except Violation:
                    case, f = ctx.best_fail or ctx.first_fail
                    violations.append((ph.name, case, f, True))
                except hypothesis.errors.Flaky:
                    # shrink budget exhaustion can look flaky; fall back
                    if ctx.first_fail is None:
                        raise
                    case, f = ctx.best_fail or ctx.first_fail
                    violations.append((ph.name, case, f, False))
                except HarnessAbort:
                    raise
                except Exception:
                    # an internal error of Hypothesis while shrinking (seen:
                    # ValueError in intervalsets.index) must not hide the
                    # violation that was being shrunk
                    if ctx.first_fail is None:
                        raise
                    case, f = ctx.best_fail or ctx.first_fail
                    violations.append((ph.name, case, f, False))
                for sig, (case, f) in ctx.other_violations.items():
                    violations.append((ph.name, case, f, False))
                ctx.other_violations = {}
            phase_stats.append({'phase': ph.name, 'kind': ph.kind,
                                'evaluations': ctx.evaluations - ev0})
    except HarnessAbort:
        pass
    except Exception:
        ctx.harness_error = traceback.format_exc()
    return {
        'shard': shard,
        'evaluations': ctx.evaluations,
        'nontrivial': list(ctx.nontrivial),
        'classes': ctx.classes,
        'samples': ctx.samples,
        'excluded_known': ctx.excluded_known,
        'known_examples': ctx.known_examples,
        'skipped_budget': ctx.skipped_budget,
        'violations': violations,
        'harness_error': ctx.harness_error,
        'phase_stats': phase_stats,
        'wall_s': time.time() - t0,
    }


def replay_file(prop, prop_id, path, known):
    with open(path) as f:
        data = json.load(f)
    ctx = Ctx(prop_id, known_open_for(prop_id, known), replay=True)
    ctx.current_case = data['case']
    try:
        prop.check(data['case'], ctx)
    except Violation as v:
        return v.finding, ctx
    return None, ctx


def write_replay(prop_id, phase, case, finding, shrunk):
    alt = os.environ.get('VERIF_REPO')
    base = 'replays' if not alt or os.path.realpath(alt) == '/repo' else 'replays_other_tree'
    d = os.path.join(ROOT, base, prop_id)
    os.makedirs(d, exist_ok=True)
    name = jhash([finding['signature'], case]) + '.json'
    path = os.path.join(d, name)
    with open(path, 'w') as f:
        json.dump({'property': prop_id, 'phase': phase, 'shrunk': shrunk,
                   'finding': finding, 'case': case}, f, indent=1,
                  default=repr)
    return os.path.relpath(path, ROOT)


def main(argv=None):
    ap = argparse.ArgumentParser()
    ap.add_argument('prop')
    ap.add_argument('--tier', default=os.environ.get('VERIF_TIER', 'quick'))
    ap.add_argument('--replay')
    ap.add_argument('--shards', type=int,
                    default=int(os.environ.get('VERIF_SHARDS', '16')))
    ap.add_argument('--scale', type=float,
                    default=float(os.environ.get('VERIF_SCALE', '1')))
    a = ap.parse_args(argv)
    prop_id = a.prop.upper()
    tier = a.tier if a.tier in ('quick', 'thorough') else 'quick'
    try:
        seed = int(os.environ.get('VERIF_SEED', '1'))
    except ValueError:
        seed = 1
    t0 = time.time()
    try:
        prop = load_prop(prop_id)
        known = load_known()
    except Exception:
        traceback.print_exc()
        return 2

    if a.replay:
        try:
            finding, _ = replay_file(prop, prop_id, a.replay, known)
        except Exception:
            traceback.print_exc()
            return 2
        if finding is not None:
            print('detail: ' + short(finding['detail'], 2000))
            print('VIOLATION property=%s replay=%s' % (prop_id, a.replay))
            return 1
        print('replay passed: %s' % a.replay)
        return 0

    budget = getattr(prop, 'BUDGET_S', {'quick': 240, 'thorough': 2400})[tier]
    deadline = t0 + budget
    new_violations = []     # (phase, case, finding, shrunk)
    known_hits = {}
    corpus_runs = 0

    # replay tier: committed regression cases
    cdir = os.path.join(ROOT, 'corpus', prop_id)
    if os.path.isdir(cdir):
        for fn in sorted(os.listdir(cdir)):
            if not fn.endswith('.json'):
                continue
            path = os.path.join(cdir, fn)
            try:
                finding, cctx = replay_file(prop, prop_id, path, known)
            except Exception:
                traceback.print_exc()
                print('harness error while replaying %s' % path)
                return 2
            corpus_runs += 1
            for sig, n in cctx.excluded_known.items():
                known_hits[sig] = known_hits.get(sig, 0) + n
            if finding is not None:
                new_violations.append(
                    ('corpus:' + fn, json.load(open(path))['case'],
                     finding, True))

    nshards = max(1, a.shards)
    jobs = [(prop_id, tier, seed, s, nshards, deadline, a.scale)
            for s in range(nshards)]
    if nshards == 1:
        results = [run_shard(jobs[0])]
    else:
        mp = multiprocessing.get_context('fork')
        with mp.Pool(min(nshards, os.cpu_count() or 1)) as pool:
            results = list(pool.imap_unordered(run_shard, jobs))
    results.sort(key=lambda r: r['shard'])

    if hasattr(prop, 'teardown'):
        try:
            prop.teardown()
        except Exception:
            pass
    herr = [r['harness_error'] for r in results if r['harness_error']]
    if herr:
        print(herr[0])
        print('HARNESS ERROR in %d shard(s)' % len(herr))
        return 2

    evaluations = sum(r['evaluations'] for r in results) + corpus_runs
    nontrivial = set()
    classes = {}
    samples = []
    known_examples = {}
    skipped = 0
    phase_tot = {}
    for r in results:
        nontrivial.update(r['nontrivial'])
        for k, v in r['classes'].items():
            classes[k] = classes.get(k, 0) + v
        for k, v in r['excluded_known'].items():
            known_hits[k] = known_hits.get(k, 0) + v
        for k, v in r['known_examples'].items():
            known_examples.setdefault(k, v)
        skipped += r['skipped_budget']
        new_violations.extend(r['violations'])
        for ps in r['phase_stats']:
            d = phase_tot.setdefault(ps['phase'], {'kind': ps['kind'],
                                                   'evaluations': 0})
            d['evaluations'] += ps['evaluations']
    # interleave samples from shards, keep a dozen, varied labels first
    per_label = {}
    for r in results:
        for label, obj in r['samples']:
            per_label.setdefault(label, []).append(obj)
    while len(samples) < 12 and any(per_label.values()):
        for label in sorted(per_label):
            if per_label[label] and len(samples) < 12:
                samples.append({'class': label, 'case': per_label[label].pop(0)})

    # one replay per distinct signature (smallest case)
    by_sig = {}
    for phase, case, f, shrunk in new_violations:
        size = len(json.dumps(case, default=repr))
        old = by_sig.get(f['signature'])
        if old is None or size < old[0]:
            by_sig[f['signature']] = (size, phase, case, f, shrunk)

    open_entries = known_open_for(prop_id, known)
    for sig, n in sorted(known_hits.items()):
        e = open_entries.get(sig, {})
        print('KNOWN-FINDING: property=%s %s [%s] (%d case(s) this run, e.g. %s)'
              % (prop_id, e.get('what', sig), e.get('id', '?'), n,
                 short(known_examples.get(sig, ''), 160).replace('\n', ' | ')))

    exhaustive = [p for p in prop.phases(tier) if p.kind == 'enumeration'
                  and getattr(p, 'exhaustive', True)]
    all_enum = bool(exhaustive) and len(exhaustive) == len(prop.phases(tier))
    wall = time.time() - t0
    evidence = {
        'property_id': prop_id,
        'tier': tier,
        'seed': seed,
        'level': 'exploration',
        'coverage': {
            'evaluations': evaluations,
            'distinct_nontrivial': len(nontrivial),
            'rule': prop.RULE,
            'samples': samples,
            'exhaustive': bool(all_enum and skipped == 0),
            'exhaustive_phases': [
                {'phase': p.name, 'note': p.note} for p in exhaustive
                if skipped == 0],
            'phases': phase_tot,
            'classes': dict(sorted(classes.items())),
            'excluded_known': known_hits,
            'corpus_replays': corpus_runs,
            'skipped_for_budget': skipped,
            'inconclusive_budget': skipped > 0,
            'shards': nshards,
        },
        'assumptions': list(getattr(prop, 'ASSUMPTIONS', [])),
        'wall_s': round(wall, 2),
        'violations': len(by_sig),
    }
    # evidence describes /repo itself; a run against another tree (VERIF_REPO,
    # used by the sensitivity tools) must not overwrite it
    alt = os.environ.get('VERIF_REPO')
    edir = os.path.join(ROOT, 'evidence') if not alt or os.path.realpath(alt) == '/repo' \
        else os.path.join(ROOT, '.scratch', 'evidence_other_tree')
    os.makedirs(edir, exist_ok=True)
    with open(os.path.join(edir, prop_id + '.json'), 'w') as f:
        json.dump(evidence, f, indent=1, default=repr, sort_keys=False)
        f.write('\n')

    print('%s tier=%s seed=%d: %d evaluations, %d distinct non-trivial, '
          '%d known-excluded, %d skipped for budget, %.1fs'
          % (prop_id, tier, seed, evaluations, len(nontrivial),
             sum(known_hits.values()), skipped, wall))
    if by_sig:
        for sig, (_, phase, case, f, shrunk) in sorted(by_sig.items()):
            path = write_replay(prop_id, phase, case, f, shrunk)
            print('finding: %s' % sig)
            print('detail: ' + short(f['detail'], 1500))
            print('VIOLATION property=%s replay=%s' % (prop_id, path))
        return 1
    return 0


if __name__ == '__main__':
    try:
        rc = main()
    except SystemExit:
        raise
    except BaseException:
        traceback.print_exc()
        rc = 2
    sys.stdout.flush()
    sys.exit(rc)
