"""Hand-written model specs mirroring the documentation and tests/conftest.py.
Used by the bounded-exhaustive phases (C02, C03) and as fuzzing subjects."""


def P(name, type_, default=None):
    d = {'name': name, 'type': type_}
    if default is not None:
        d['default'] = default
    return d


def C(name, params, bases=(), **kw):
    d = {'name': name, 'kind': 'obj', 'bases': list(bases), 'params': params}
    d.update(kw)
    return d


REF = lambda n: ['ref', n]
OPT = lambda t: ['opt', t]

_P = C('P', [P('a', 'int')])
_C1 = C('C1', [P('a', 'int'), P('b', 'str', ['str', 'q'])], ['P'])
_C2 = C('C2', [P('a', 'int'), P('c', 'int')], ['P'])
_G = C('G', [P('a', 'int'), P('b', 'str', ['str', 'q']), P('d', OPT('int'), ['none'])], ['C1'])
_V = C('V', [P('x', 'float'), P('y', 'float', ['float', '0.0'])])
_E = C('E', [P('a', 'int')], extra='required')
_COL = {'name': 'Col', 'kind': 'enum', 'members': ['red', 'true']}
_US = {'name': 'US', 'kind': 'userstring'}
_D = C('D', [P('some_key', 'int'), P('col', REF('Col'), ['enum', 'Col', 'red']),
             P('u', ['union', 'int', 'str', 'bool'], ['int', 0]),
             P('l', OPT(['list', 'int']), ['none'])])
_DS = C('DS', [P('some_key', 'int'), P('n_1', 'str', ['str', 'x'])],
        savorize=[['dashes_to_unders']])
_T1 = C('T1', [P('p', REF('P')), P('m', OPT(['dict', 'str', REF('P')]), ['none']),
               P('n', 'any', ['none']), P('v', ['union', REF('V'), 'int', 'none'], ['none']),
               P('us', OPT(REF('US')), ['none'])])
_AB = C('Ab', [P('a', 'int')], abstract='abc')
_K1 = C('K1', [P('a', 'int')], ['Ab'])
_K2 = C('K2', [P('a', 'int'), P('b', 'int')], ['Ab'])
_ABL = C('Abl', [P('a', 'int')], abstract='abc')     # abstract, no registered subclass
_WD2 = C('Wd2', [P('b', 'str')])
_SH = C('Shape', [P('center', REF('V'))])
_CI = C('Circle', [P('center', REF('V')), P('radius', 'float')], ['Shape'])
_SQ = C('Square', [P('center', REF('V')), P('width', 'float')], ['Shape'])
_UN = C('Un', [P('a', None), P('b', None, ['int', 3])])
_WD = C('WD', [P('n', 'int'), P('when', OPT('date'), ['none']), P('where', OPT('path'), ['none'])],
        savorize=[['word_to_int', 'n', [['seven', 7], ['x', 1]]], ['set_default', 'where', ['none']]])

_YS = {'name': 'YS', 'kind': 'ystring'}
_DK = C('DK', [P('m', ['dict', REF('US'), 'int']), P('y', OPT(['dict', REF('YS'), 'str']), ['none'])])
_PR = C('PR', [P('a', 'int'), P('_id', 'int', ['int', 0])])
_TL = C('Tool', [P('a', 'int')])
_PN = C('Pen', [P('a', 'int'), P('b', 'str', ['str', 'q'])], ['Tool'])
_BR = C('Brush', [P('a', 'int'), P('c', 'int', ['int', 0])], ['Tool'])
_MK = C('Marker', [P('a', 'int'), P('b', 'str', ['str', 'q']), P('c', 'int', ['int', 0])],
        ['Pen', 'Brush'])
_SB = C('SBase', [P('line', 'int')], savorize=[['int_add', 'line', -1]])
_SD = C('SDerived', [P('line', 'int'), P('col', 'int')], ['SBase'])
_SE = C('SDeep', [P('line', 'int'), P('col', 'int'), P('w', 'int')], ['SDerived'],
        savorize=[['int_add', 'col', 10]])
_SHD = {'name': 'Shade', 'kind': 'enum', 'members': ['red', 'dark']}
_US2 = {'name': 'US2', 'kind': 'userstring'}
_EH = C('EH', [P('c', ['union', REF('Col'), REF('Shade')]),
               P('s', ['union', REF('US'), REF('US2'), 'int'], ['int', 0]),
               P('o', OPT(REF('Col')), ['none']),
               P('t', ['union', REF('US'), 'str'], ['str', 'q'])])
_EA = C('EA', [P('k', REF('Col')), P('u', REF('US')),
               P('c', ['union', REF('Col'), REF('Shade')], ['enum', 'Col', 'red']),
               P('s', ['union', REF('US'), REF('US2'), 'int'], ['int', 0]),
               P('t', ['union', REF('US'), 'str'], ['str', 'q'])])
# ambiguity two levels below the expected class: Root <- Mid <- {LeafC, LeafD}
_RT = C('Root', [P('a', 'int')])
_MD = C('Mid', [P('a', 'int')], ['Root'])
_LC = C('LeafC', [P('a', 'int'), P('b', 'str', ['str', 'q'])], ['Mid'])
_LD = C('LeafD', [P('a', 'int'), P('c', 'int', ['int', 0])], ['Mid'])
_OT = C('Other', [P('a', 'int'), P('d', 'int', ['int', 0])], ['Root'])
# an unregistered class between two registered ones
_UR = C('URoot', [P('a', 'int')], extra='default')
_UM = C('UMid', [P('a', 'int')], ['URoot'], reg=False, extra='default')
_UL = C('ULeaf', [P('a', 'int'), P('b', 'str', ['str', 'q'])], ['UMid'], extra='default')
# an abstract class with its own recogniser: it may accept a node, it is never built
_AR = C('AbR', [P('a', 'int')], abstract='abc', recognize=[['mapping'], ['attr', 'a']])
_AK1 = C('AK1', [P('a', 'int'), P('b', 'int')], ['AbR'])
_AK2 = C('AK2', [P('a', 'int'), P('c', 'int')], ['AbR'])
MODELS = {
    'AR': {'classes': [_AR, _AK1, _AK2],
           'doc_type': ['union', REF('AbR'), ['list', REF('AbR')], ['dict', 'str', ['opt', REF('AbR')]]]},
    'UI': {'classes': [_UR, _UM, _UL], 'doc_type': ['union', REF('URoot'), ['list', REF('URoot')]]},
    # string-like classes and enums where bool-looking scalars may turn up
    'SL': {'classes': [_US, _YS, _COL], 'doc_type': ['list', ['union', REF('US'), 'int']]},
    'SM': {'classes': [_US, _YS, _COL],
           'doc_type': ['dict', 'str', ['union', REF('YS'), 'bool', ['list', REF('Col')]]]},
    'DP': {'classes': [_RT, _MD, _LC, _LD, _OT], 'doc_type': REF('Root')},
    'EU': {'classes': [_COL, _SHD, _US, _US2, _EH],
           'doc_type': ['union', REF('EH'), REF('Col'), REF('Shade'), ['list', REF('Shade')]]},
    'EV': {'classes': [_COL, _SHD, _US, _US2, _EA],
           'doc_type': ['union', REF('EA'), ['list', ['union', REF('EA'), REF('Shade')]]]},
    'AL': {'classes': [_ABL, _WD2], 'doc_type': ['union', REF('Abl'), REF('Wd2'), ['list', REF('Abl')]]},
    'SV': {'classes': [_SB, _SD, _SE], 'doc_type': REF('SBase')},
    'DI': {'classes': [_TL, _PN, _BR, _MK], 'doc_type': REF('Tool')},
    'DK': {'classes': [_US, _YS, _DK], 'doc_type': REF('DK')},
    'PR': {'classes': [_PR], 'doc_type': REF('PR')},
    'V': {'classes': [_V], 'doc_type': REF('V')},
    'P': {'classes': [_P, _C1, _C2, _G], 'doc_type': REF('P')},
    'E': {'classes': [_E], 'doc_type': REF('E')},
    'D': {'classes': [_COL, _D], 'doc_type': REF('D')},
    'DS': {'classes': [_DS], 'doc_type': REF('DS')},
    'T1': {'classes': [_P, _C1, _C2, _G, _V, _US, _T1], 'doc_type': REF('T1')},
    'U1': {'classes': [], 'doc_type': ['union', 'int', 'str', ['list', 'int'], ['dict', 'str', 'bool']]},
    'U2': {'classes': [_P, _C1, _E], 'doc_type': ['union', REF('P'), REF('E')]},
    'L': {'classes': [_V, _P, _C1], 'doc_type': ['list', ['union', REF('V'), REF('P')]]},
    'DM': {'classes': [_COL], 'doc_type': ['dict', 'str', OPT(REF('Col'))]},
    'DU': {'classes': [_US], 'doc_type': ['dict', REF('US'), 'int']},
    'AB': {'classes': [_AB, _K1, _K2], 'doc_type': ['list', REF('Ab')]},
    'SH': {'classes': [_V, _SH, _CI, _SQ], 'doc_type': REF('Shape')},
    'UN': {'classes': [_UN], 'doc_type': REF('Un')},
    'WD': {'classes': [_WD], 'doc_type': REF('WD')},
    'BF': {'classes': [], 'doc_type': ['seq', ['union', 'int', 'buf', 'bool']]},
}
for _n, _m in MODELS.items():
    _m['order'] = [c['name'] for c in _m['classes']]

# keys and scalar spellings used by the exhaustive small-document enumeration
KEYS = {
    'V': ['x', 'y', 'z'], 'P': ['a', 'b', 'c', 'd'], 'E': ['a', 'b', 'self'],
    'D': ['some_key', 'some-key', 'col', 'u', 'l'], 'DS': ['some_key', 'some-key', 'n_1', 'n-1'],
    'T1': ['p', 'm', 'n', 'v', 'us', 'a', 'x'], 'U1': ['k', 'j'], 'U2': ['a', 'b'],
    'L': ['x', 'a', 'b'], 'DM': ['k', 'j'], 'DU': ['k', 'j'], 'AB': ['a', 'b'],
    'SH': ['center', 'radius', 'width', 'x'], 'UN': ['a', 'b', 'c'],
    'WD': ['n', 'when', 'where', 'zz'], 'BF': ['k'],
    'AR': ['a', 'b', 'c'], 'UI': ['a', 'b'], 'SL': ['k'], 'SM': ['k', 'true'], 'EU': ['c', 's', 'o', 't'], 'EV': ['k', 'u', 'c', 's', 't'], 'AL': ['a', 'b'], 'DP': ['a', 'b', 'c', 'd'], 'DK': ['m', 'y', 'k'], 'PR': ['a', '_id', 'b'], 'DI': ['a', 'b', 'c', 'd'], 'SV': ['line', 'col', 'w'],
}
SCALS = ['1', 'x', 'true', '1.5', '~', 'red', '"1"']
SCALS_BY = {'SV': ['1', '7', 'x', '~'], 'WD': ['1', 'seven', '2001-01-01', '~', 'a/b', '1.5'],
            'SH': ['1', '1.5', '1e-05', 'x', '~'], 'V': ['1', '1.5', '1e-05', '+1E3', 'x', '~', 'true'], 'BF': ['1', 'true', 'x', '~']}


# models fuzzed by fuzz/fuzz_load.py: the portfolio plus models with hooks,
# extras below a hierarchy, Any/untyped positions and a registered trap class
_TRAP = C('Trap', [P('a', 'int', ['int', 0])])
_HK = C('HK', [P('some_key', 'int'), P('note', 'any', ['none']), P('u', None, ['none'])],
        extra='default', savorize=[['dashes_to_unders'], ['raise_if_has', 'forbidden']])
_PM = C('PM', [P('a', 'int')], recognize='permissive')
_IX = C('IX', [P('items', ['dict', 'str', REF('V')])],
        savorize=[['map_to_index', 'items', 'x', 'y']])
FUZZ_MODELS = dict(MODELS)
FUZZ_MODELS.update({
    'HK': {'classes': [_HK, _TRAP], 'doc_type': REF('HK'), 'order': ['HK', 'Trap']},
    'PM': {'classes': [_PM, _TRAP], 'doc_type': ['list', REF('PM')], 'order': ['PM', 'Trap']},
    'ANY': {'classes': [_P, _TRAP], 'doc_type': 'any', 'order': ['P', 'Trap']},
    'T1T': {'classes': [_P, _C1, _C2, _G, _V, _US, _T1, _TRAP], 'doc_type': REF('T1'),
            'order': ['P', 'C1', 'C2', 'G', 'V', 'US', 'T1', 'Trap']},
})
