"""Shared helpers: findings, run context, strict equality, exception bucketing."""
import hashlib
import json
import math
import os
import time
import traceback
from collections import OrderedDict
from datetime import date, datetime
from pathlib import PurePath


class Violation(Exception):
    """Raised inside a property when an (unknown) violation is observed."""

    def __init__(self, finding):
        super().__init__(finding['signature'])
        self.finding = finding


class Harness(Exception):
    """A defect of the harness itself (exit code 2, never a VIOLATION)."""


def jhash(obj):
    s = json.dumps(obj, sort_keys=True, default=repr, ensure_ascii=True)
    return hashlib.sha1(s.encode('ascii', 'backslashreplace')).hexdigest()[:16]


def short(obj, n=400):
    s = obj if isinstance(obj, str) else repr(obj)
    return s if len(s) <= n else s[:n] + '...<%d more>' % (len(s) - n)


class Ctx:
    """Per-process accounting object handed to every property check."""

    def __init__(self, prop_id, known_open, deadline=None, replay=False):
        self.prop_id = prop_id
        self.known_open = known_open      # signature -> entry
        self.deadline = deadline
        self.replay = replay
        self.evaluations = 0
        self.nontrivial = set()
        self.classes = {}
        self.samples = []
        self.sample_keys = set()
        self.excluded_known = {}
        self.known_examples = {}
        self.skipped_budget = 0
        self.fail_cases = {}
        self.shrink_deadline = None
        self.shrink_budget = 60.0
        self.current_case = None
        self.last_violation = None

    # -- accounting ---------------------------------------------------
    def count(self, label, n=1):
        self.classes[label] = self.classes.get(label, 0) + n

    def nontriv(self, key):
        """Record a distinct non-trivial case (key: any JSON-able value)."""
        self.nontrivial.add(key if isinstance(key, str) and len(key) <= 16
                            else jhash(key))

    def sample(self, label, obj, per_label=2, total=12):
        if len(self.samples) >= total:
            return
        n = sum(1 for l, _ in self.samples if l == label)
        if n >= per_label:
            return
        k = jhash(obj)
        if k in self.sample_keys:
            return
        self.sample_keys.add(k)
        self.samples.append((label, obj))

    def out_of_time(self):
        return self.deadline is not None and time.time() > self.deadline

    # -- findings -----------------------------------------------------
    def finding(self, clause, signature, detail):
        """Report a violation of the property.

        Known (open) findings are counted and execution continues so the
        search goes on behind them; anything else raises Violation.
        """
        sig = '%s:%s' % (clause, signature)
        f = {'property': self.prop_id, 'clause': clause, 'signature': sig,
             'detail': detail}
        if sig in self.known_open:
            self.excluded_known[sig] = self.excluded_known.get(sig, 0) + 1
            if sig not in self.known_examples:
                self.known_examples[sig] = short(detail, 300)
            return
        self.last_violation = (self.current_case, f)
        raise Violation(f)


# ---------------------------------------------------------------------
# exception bucketing

def innermost_frame(exc, packages=('yatiml', 'yaml')):
    """file:function of the innermost traceback frame inside the packages."""
    tb = traceback.extract_tb(exc.__traceback__)
    pick = None
    for fr in tb:
        fn = fr.filename.replace(os.sep, '/')
        for p in packages:
            if '/%s/' % p in fn:
                pick = '%s/%s:%s' % (p, fn.rsplit('/', 1)[1], fr.name)
    if pick is None and tb:
        fr = tb[-1]
        pick = '%s:%s' % (fr.filename.rsplit('/', 1)[-1], fr.name)
    return pick or '?'


def exc_signature(exc):
    return 'exc:%s@%s' % (type(exc).__name__, innermost_frame(exc))


# ---------------------------------------------------------------------
# strict structural equality

def is_gen_obj(x):
    return hasattr(type(x), '_yv_class')


def strict_eq(a, b, unordered_maps=False):
    """Type-strict structural equality (NaN == NaN, 1 != 1.0 != True)."""
    if is_gen_obj(a) or is_gen_obj(b):
        if type(a) is not type(b):
            return False
        sa, sb = a._yv_state(), b._yv_state()
        if unordered_maps and sa[2] is not None and sb[2] is not None:
            # extras: an ordered mapping; compare as a mapping here
            return (strict_eq(sa[:2], sb[:2], True)
                    and strict_eq(dict(sa[2]), dict(sb[2]), True))
        return strict_eq(sa, sb, unordered_maps)
    if isinstance(a, float) and isinstance(b, float):
        if type(a) is not type(b):
            return False
        if math.isnan(a) or math.isnan(b):
            return math.isnan(a) and math.isnan(b)
        return a == b
    if isinstance(a, (list, tuple)):
        return (type(a) is type(b) and len(a) == len(b)
                and all(strict_eq(x, y, unordered_maps) for x, y in zip(a, b)))
    if isinstance(a, dict):
        if not isinstance(b, dict) or len(a) != len(b):
            return False
        # OrderedDict vs dict: both are "ordered mappings"; class compared
        # only loosely (OrderedDict is a dict).
        ka, kb = list(a.keys()), list(b.keys())
        if unordered_maps:
            used = set()
            for k in ka:
                for j, k2 in enumerate(kb):
                    if j not in used and strict_eq(k, k2) and strict_eq(
                            a[k], b[k2], unordered_maps):
                        used.add(j)
                        break
                else:
                    return False
            return True
        return all(strict_eq(x, y) and strict_eq(a[x], b[y], unordered_maps)
                   for x, y in zip(ka, kb))
    if type(a) is not type(b):
        return False
    return a == b


def canon(v):
    """Canonical JSON-able rendering of a Python value (for reports)."""
    if is_gen_obj(v):
        return {'$' + type(v).__name__: canon(v._yv_state())}
    if isinstance(v, bool) or v is None or isinstance(v, (int, str)):
        if isinstance(v, str) and type(v) is not str:
            return {'$str:' + type(v).__name__: str(v)}
        return v
    if isinstance(v, float):
        return {'$float': repr(v)}
    if isinstance(v, (list, tuple)):
        return [canon(x) for x in v]
    if isinstance(v, dict):
        return {'$map' if not isinstance(v, OrderedDict) else '$omap':
                [[canon(k), canon(x)] for k, x in v.items()]}
    if isinstance(v, (date, datetime)):
        return {'$' + type(v).__name__: v.isoformat()}
    if isinstance(v, PurePath):
        return {'$path': str(v)}
    if isinstance(v, bytes):
        return {'$bytes': v.hex()}
    return {'$' + type(v).__name__: repr(v)}
