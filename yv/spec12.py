"""Reference scalar resolution, written from the documentation and the YAML 1.2
core schema, independent of yatiml's code: bool and float by YAML 1.2 rules,
everything else (int, null, timestamp, merge, value) by PyYAML's stock table.
Used for composing documents in the harness, so that what a check believes a
document means does not depend on the Loader under test."""
import yaml

TAGP = 'tag:yaml.org,2002:'
FLOAT, BOOL, STR = TAGP + 'float', TAGP + 'bool', TAGP + 'str'
DIG = '0123456789'
BOOLS = ('true', 'True', 'TRUE', 'false', 'False', 'FALSE')

# PyYAML's table as it is when this module is first imported (before any check
# registers additional resolvers on yaml.SafeLoader)
_STOCK = {k: list(v) for k, v in yaml.SafeLoader.yaml_implicit_resolvers.items()}


def is_float(s):
    """YAML 1.2 core float (with a dot or an exponent), .inf / .nan forms."""
    i = 1 if s[:1] in ('+', '-') else 0
    body = s[i:]
    if body in ('.inf', '.Inf', '.INF', '.nan', '.NaN', '.NAN'):
        return True
    n, j = len(body), 0
    while j < n and body[j] in DIG:
        j += 1
    int_digits, has_dot, frac_digits = j, False, 0
    if j < n and body[j] == '.':
        has_dot = True
        j += 1
        k = j
        while j < n and body[j] in DIG:
            j += 1
        frac_digits = j - k
    if int_digits == 0 and frac_digits == 0:
        return False
    has_exp = False
    if j < n and body[j] in 'eE':
        j += 1
        if j < n and body[j] in '+-':
            j += 1
        k = j
        while j < n and body[j] in DIG:
            j += 1
        if j == k:
            return False
        has_exp = True
    return j == n and (has_dot or has_exp)


def resolve_plain(s):
    """Tag of the plain (unquoted, untagged) scalar s."""
    if s in BOOLS:
        return BOOL
    if s and is_float(s):
        return FLOAT
    for tag, rx in _STOCK.get(s[0] if s else '', []) + _STOCK.get(None, []):
        if tag in (FLOAT, BOOL):
            continue
        if rx.match(s):
            return tag
    return STR


def resolve(self, kind, value, implicit):
    """Drop-in for yaml.resolver.BaseResolver.resolve on harness loaders/dumpers."""
    if kind is yaml.ScalarNode and implicit[0]:
        return resolve_plain(value)
    return yaml.resolver.BaseResolver.resolve(self, kind, value, implicit)
