"""Plain document trees, renderers and raw composition.

Tree (JSON-able):
  ['s', text, quote, tag]      quote: '' plain | '"' | "'" ; tag: None | '!X' | '!!int'
  ['q', [items], tag]
  ['m', [[key, value], ...], tag]
  ['&', name, tree]            anchored node
  ['*', name]                  alias
"""
import copy
import re

import yaml

from yv import spec12

TAGP = 'tag:yaml.org,2002:'


# -- raw composition: PyYAML's parser and composer with the reference resolver
# (yv.spec12), nothing of yatiml: what the harness believes a document to be
# must not depend on the Loader under test --------------------------------------
class RawLoader(yaml.SafeLoader):
    resolve = spec12.resolve


def compose_raw(text):
    return yaml.compose(text, Loader=RawLoader)


def resolve_plain(text):
    return spec12.resolve_plain(text)


def plain(node, _stack=None):
    """Nested tuple (kind, tag, value) of a composed node; aliases expanded.
    Raises RecursionError-free ValueError('cycle') on cyclic graphs."""
    _stack = _stack or []
    if any(node is n for n in _stack):
        raise ValueError('cycle')
    if isinstance(node, yaml.ScalarNode):
        return ('s', node.tag, node.value)
    _stack.append(node)
    try:
        if isinstance(node, yaml.SequenceNode):
            return ('q', node.tag, tuple(plain(i, _stack) for i in node.value))
        return ('m', node.tag, tuple(
            (plain(k, _stack), plain(v, _stack)) for k, v in node.value))
    finally:
        _stack.pop()


def node_stats(node):
    """(count, depth, shared?, cyclic?) of a composed node graph."""
    seen = {}
    shared = [False]
    cyc = [False]
    maxd = [0]

    def go(n, stack, d):
        maxd[0] = max(maxd[0], d)
        if id(n) in stack:
            cyc[0] = True
            return
        if id(n) in seen:
            if not isinstance(n, yaml.ScalarNode) or True:
                shared[0] = True
            if not isinstance(n, yaml.ScalarNode):
                return
        seen[id(n)] = n
        if isinstance(n, yaml.SequenceNode):
            stack.add(id(n))
            for i in n.value:
                go(i, stack, d + 1)
            stack.discard(id(n))
        elif isinstance(n, yaml.MappingNode):
            stack.add(id(n))
            for k, v in n.value:
                go(k, stack, d + 1)
                go(v, stack, d + 1)
            stack.discard(id(n))
    go(node, set(), 1)
    return len(seen), maxd[0], shared[0], cyc[0]


# -- rendering ---------------------------------------------------------------
_PLAIN_SAFE = re.compile(r'^[A-Za-z0-9_./+~-]([A-Za-z0-9_./+ :~-]*[A-Za-z0-9_./+~-])?$')


def plain_safe(text):
    """Conservative: text can be written as a flow-context plain scalar."""
    if not _PLAIN_SAFE.match(text):
        return False
    if ': ' in text or ' #' in text or text.endswith(':') or '  ' in text:
        return False
    if text[0] in '-?:' and (len(text) == 1 or text[1] == ' '):
        return False
    if text.startswith('---') or text.startswith('...'):
        return False
    return True


def dq(text):
    out = ['"']
    for ch in text:
        o = ord(ch)
        if ch == '"':
            out.append('\\"')
        elif ch == '\\':
            out.append('\\\\')
        elif ch == '\n':
            out.append('\\n')
        elif ch == '\t':
            out.append('\\t')
        elif ch == '\r':
            out.append('\\r')
        elif 0x20 <= o <= 0x7e:
            out.append(ch)
        elif o == 0x85 or o == 0x2028 or o == 0x2029 or o == 0xfeff:
            out.append('\\u%04x' % o)
        elif (0xa0 <= o <= 0xd7ff) or (0xe000 <= o <= 0xfffd) or (
                0x10000 <= o <= 0x10ffff):
            out.append(ch)
        elif o <= 0xff:
            out.append('\\x%02x' % o)
        elif o <= 0xffff:
            out.append('\\u%04x' % o)
        else:
            out.append('\\U%08x' % o)
    out.append('"')
    return ''.join(out)


def sq(text):
    return "'" + text.replace("'", "''") + "'"


def render_flow(t):
    """One-line flow-style YAML text of a Tree."""
    k = t[0]
    if k == '&':
        return '&%s %s' % (t[1], render_flow(t[2]))
    if k == '*':
        return '*%s' % t[1]
    tag = t[3] if k == 's' else t[2]
    pre = (tag + ' ') if tag else ''
    if k == 's':
        text, q = t[1], t[2]
        if q == "'" and not re.search(r'[\x00-\x1f\x7f-\x9f\ud800-\udfff﻿  ]', text):
            return pre + sq(text)
        if text == '<<' and not q:
            return pre + '<<'       # plain: the YAML merge key
        if q or not plain_safe(text):
            return pre + dq(text)
        return pre + text
    if k == 'q':
        return pre + '[' + ', '.join(render_flow(i) for i in t[1]) + ']'
    items = []
    for key, v in t[1]:
        ks = render_flow(key)
        if key[0] in ('q', 'm') or (key[0] == '&' and key[2][0] in 'qm') or len(ks) > 100:
            items.append('? ' + ks + ' : ' + render_flow(v))
        else:
            items.append(ks + ': ' + render_flow(v))
    return pre + '{' + ', '.join(items) + '}'


def S(text, q='', tag=None):
    return ['s', text, q, tag]


def Q(items, tag=None):
    return ['q', list(items), tag]


def M(pairs, tag=None):
    return ['m', [[k if isinstance(k, list) else S(k), v] for k, v in pairs], tag]


def subtrees(t, path=()):
    """Yield (path, subtree) for every node (paths index into children)."""
    yield path, t
    if t[0] == '&':
        yield from subtrees(t[2], path + (2,))
    elif t[0] == 'q':
        for i, c in enumerate(t[1]):
            yield from subtrees(c, path + (1, i))
    elif t[0] == 'm':
        for i, (k, v) in enumerate(t[1]):
            yield from subtrees(k, path + (1, i, 0))
            yield from subtrees(v, path + (1, i, 1))


def get_at(t, path):
    for p in path:
        t = t[p]
    return t


def set_at(t, path, new):
    """Return a deep copy of t with the subtree at path replaced."""
    t = copy.deepcopy(t)
    if not path:
        return copy.deepcopy(new)
    cur = t
    for p in path[:-1]:
        cur = cur[p]
    cur[path[-1]] = copy.deepcopy(new)
    return t


def tree_size(t):
    return sum(1 for _ in subtrees(t))


# -- restyling through PyYAML's serializer ------------------------------------
class _StyleDumper(yaml.SafeDumper):
    resolve = spec12.resolve


def _style_dumper():
    return _StyleDumper


def copy_nodes(node, memo=None, share=True):
    """Deep copy of a composed node graph; share=False expands aliases."""
    memo = {} if memo is None else memo
    if share and id(node) in memo:
        return memo[id(node)]
    if isinstance(node, yaml.ScalarNode):
        n = yaml.ScalarNode(node.tag, node.value, node.start_mark,
                            node.end_mark, style=node.style)
    elif isinstance(node, yaml.SequenceNode):
        n = yaml.SequenceNode(node.tag, [], node.start_mark, node.end_mark,
                              flow_style=node.flow_style)
        memo[id(node)] = n
        n.value = [copy_nodes(i, memo, share) for i in node.value]
    else:
        n = yaml.MappingNode(node.tag, [], node.start_mark, node.end_mark,
                             flow_style=node.flow_style)
        memo[id(node)] = n
        n.value = [(copy_nodes(k, memo, share), copy_nodes(v, memo, share))
                   for k, v in node.value]
    memo[id(node)] = n
    return n


STYLES = ['block', 'flow', 'dq', 'sq', 'literal', 'canonical', 'json',
          'narrow', 'wide_indent', 'markers']


def restyle(node, style):
    """Serialise a composed node graph in the given style (text)."""
    n = copy_nodes(node)
    kw = {}
    seen = set()

    def walk(x):
        if id(x) in seen:
            return
        seen.add(id(x))
        if isinstance(x, yaml.ScalarNode):
            if style == 'dq' or style == 'json':
                if style == 'dq' or x.tag == TAGP + 'str':
                    x.style = '"'
                else:
                    x.style = None
            elif style == 'sq':
                x.style = "'"
            elif style == 'literal':
                x.style = '|'
            else:
                x.style = None
        else:
            x.flow_style = style in ('flow', 'json')
            if isinstance(x, yaml.SequenceNode):
                for i in x.value:
                    walk(i)
            else:
                for k, v in x.value:
                    walk(k)
                    walk(v)
    walk(n)
    if style == 'canonical':
        kw['canonical'] = True
    if style == 'narrow':
        kw['width'] = 10
    if style == 'wide_indent':
        kw['indent'] = 7
    if style == 'markers':
        kw['explicit_start'] = True
        kw['explicit_end'] = True
    if style == 'json':
        kw['width'] = 100000
    return yaml.serialize(n, Dumper=_style_dumper(), allow_unicode=True, **kw)
