"""Reference semantics of loading: an independent, deliberately naive statement
of the documented pipeline (docs/problem_solving.rst "The YAtiML pipeline",
advanced_features.rst, recipes.rst, docstrings), working on plain trees (yv.pt)
and model specs. It never calls yatiml's recogniser, loader or constructors;
it calls the *generated user classes* to build the expected value and PyYAML's
SafeConstructor to parse core-schema scalars (trusted base).

    Ref(model).load(pt_tree)            -> value   or raises Reject(reason)
    Ref(model).matches(pt_tree, texpr)  -> set of type keys
"""
import copy
import json
import pathlib
from collections import OrderedDict

import yaml

from yv import pt
from yv.pt import TAGP

SCALAR_TAG = {'str': 'str', 'int': 'int', 'float': 'float', 'bool': 'bool',
              'buf': 'bool', 'none': 'null', 'date': 'timestamp'}
_SC = yaml.constructor.SafeConstructor()


class Reject(Exception):
    def __init__(self, reason, detail=''):
        super().__init__(reason + (': ' + detail if detail else ''))
        self.reason = reason


class Unsupported(Exception):
    """The model/document is outside what the reference covers."""


def tkey(t):
    return json.dumps(t)


def is_core(tag):
    return tag.startswith('tag:yaml.org,2002')


def construct_scalar(tag, text, resolve):
    if not is_core(tag):
        tag = resolve(text)
    try:
        return _SC.construct_object(yaml.ScalarNode(tag, text), deep=True)
    except yaml.YAMLError:
        raise Reject('scalar', 'PyYAML cannot construct %s %r' % (tag, text))
    except (ValueError, KeyError, IndexError, AttributeError, OverflowError, TypeError):
        raise Reject('scalar', 'malformed %s %r' % (tag, text))


class Ref:
    def __init__(self, model, resolve=None):
        """model: yv.models.Model (spec + generated classes)."""
        self.m = model
        self.spec = model.spec
        self.by = model.by
        self.reg = [c.__name__ for c in model.registered]
        dt = self.spec['doc_type']
        if isinstance(dt, list) and dt[0] == 'ref' and dt[1] not in self.reg:
            # load_function(T, ...) registers a class given as document type
            self.reg.append(dt[1])
        if resolve is None:
            from yv import tree as T
            resolve = T.resolve_plain
        self.resolve = resolve
        self.stats = {}
        self.track = False

    # -- model helpers -------------------------------------------------------
    def kind(self, name):
        return self.by[name].get('kind', 'obj')

    def params(self, name):
        """(name, type, required) in signature order."""
        ps = self.by[name].get('params', [])
        req = [p for p in ps if 'default' not in p]
        opt = [p for p in ps if 'default' in p]
        return [(p['name'], p.get('type'), 'default' not in p) for p in req + opt]

    def children(self, name):
        return [c for c in self.reg if name in self.by[c].get('bases', [])]

    def abstract(self, name):
        c = self.by[name]
        if c.get('abstract'):
            return True
        # a concrete class below an @abstractmethod class overrides the
        # method (generated that way), so only the declared ones are abstract
        return False

    # -- recognition ----------------------------------------------------------
    def attr_lookup(self, node, name):
        vs = [v for k, v in node[2] if k[0] == 's' and k[2] == name]
        if any(k[0] == 's' and k[2] == name and k[1] != TAGP + 'str'
               for k, _ in node[2]):
            # attribute names are strings; a key such as the int 1 spelt like
            # the name is outside what the documentation describes
            raise Unsupported('non-string key spelt like the attribute')
        if len(vs) > 1:
            raise Unsupported('duplicate key')
        return vs[0] if vs else None

    def eval_clause(self, node, c):
        k = c[0]
        if k == 'mapping':
            return node[0] == 'm'
        if k == 'sequence':
            return node[0] == 'q'
        if k == 'scalar':
            if node[0] != 's':
                return False
            if not c[1]:
                return True
            return any(node[1] == TAGP + SCALAR_TAG[t] for t in c[1])
        if node[0] != 'm':
            return False
        v = self.attr_lookup(node, c[1])
        if v is None:
            return False
        if k == 'attr':
            return True
        if k == 'attr_type':
            # "recognisable as that type by the rules the loader itself uses":
            # the loader needs exactly one reading
            return len(self.matches(v, c[2])) == 1
        want = _lit(c[2])
        same = (v[0] == 's' and v[1] == TAGP + SCALAR_TAG[pt.py_kind(want)]
                and _same(construct_scalar(v[1], v[2], self.resolve), want))
        if k == 'attr_value':
            return same
        if k == 'attr_value_not':
            return not same
        raise Unsupported('clause %r' % (c,))

    def struct_match(self, node, name):
        c = self.by[name]
        kind = c.get('kind', 'obj')
        rec = c.get('recognize')
        if rec is not None:
            if rec == 'permissive':
                return True
            try:
                return all(self.eval_clause(node, cl) for cl in rec)
            except Reject:
                return False
        # a scalar tagged with the class's own tag is what the tag says it is
        # (C03: an explicit !ClassName tag names the candidate)
        if kind == 'enum':
            return node[0] == 's' and node[1] in (TAGP + 'str', TAGP + 'bool', '!' + name)
        if kind != 'obj':
            return node[0] == 's' and node[1] in (TAGP + 'str', '!' + name)
        if node[0] != 'm':
            return False
        for pn, ptype, req in self.params(name):
            v = self.attr_lookup(node, pn)
            if v is None:
                v = self.attr_lookup(node, pn.replace('_', '-'))
            if v is not None:
                if not self.matches(v, ptype):
                    return False
            elif req:
                return False
        return True

    def candidates(self, node, name):
        """Registered concrete classes at or below `name` that match the node
        structurally (before most-derived selection and tag filtering)."""
        out = set()

        def rec(n):
            for d in self.children(n):
                rec(d)
            if not self.abstract(n) and self.struct_match(node, n):
                out.add(n)
        rec(name)
        return out

    def class_matches(self, node, name):
        tag = node[1]
        if self.track:
            n = len(self.candidates(node, name))
            self.stats['max_candidates'] = max(self.stats.get('max_candidates', 0), n)
            if not is_core(tag):
                self.stats['tagged_class_position'] = True

        def compat(n):
            return is_core(tag) or tag == '!' + n

        def rec(n):
            below = set()
            for d in self.children(n):
                below |= rec(d)
            if below:
                return below
            if (not self.abstract(n) and self.struct_match(node, n)
                    and compat(n)):
                return {n}
            return set()
        return rec(name)

    def matches(self, node, t):
        """Set of type keys the node can be read as at a position of type t."""
        if t is None or t == 'any':
            return {'"any"'}
        if isinstance(t, str):
            if t == 'path':
                ok = node[0] == 's' and node[1] == TAGP + 'str'
            else:
                ok = node[0] == 's' and node[1] == TAGP + SCALAR_TAG[t]
            return {tkey(t)} if ok else set()
        k = t[0]
        if k == 'opt':
            return self.matches(node, t[1]) | self.matches(node, 'none')
        if k == 'union':
            out = set()
            for mt in t[1:]:
                out |= self.matches(node, mt)
            if '"bool"' in out and '"buf"' in out:
                out.discard('"buf"')
            if self.track and len(out) > 1:
                self.stats['ambiguous_union'] = True
            return out
        if k in ('list', 'seq', 'mseq'):
            if node[0] != 'q':
                return set()
            for it in node[2]:
                ms = self.matches(it, t[1])
                if not ms:
                    return set()
                if len(ms) > 1:
                    return {tkey([k, json.loads(x)]) for x in ms}
            return {tkey(t)}
        if k in ('dict', 'map', 'mmap'):
            if node[0] != 'm':
                return set()
            for a, b in node[2]:
                ms = self.matches(a, t[1])
                if not ms:
                    return set()
                if len(ms) > 1:
                    return {tkey([k, json.loads(x), t[2]]) for x in ms}
                ms = self.matches(b, t[2])
                if not ms:
                    return set()
                if len(ms) > 1:
                    return {tkey([k, t[1], json.loads(x)]) for x in ms}
            return {tkey(t)}
        if k == 'ref':
            if t[1] not in self.reg:
                raise Reject('unregistered', t[1])
            return {tkey(['ref', n]) for n in self.class_matches(node, t[1])}
        raise Unsupported(repr(t))

    # -- seasoning ------------------------------------------------------------
    def savorize(self, node, name):
        """Reference savorize ops: registered direct bases first, then own."""
        for b in self.by[name].get('bases', []):
            if b in self.reg:
                node = self.savorize(node, b)
        if self.kind(name) == 'enum' and node[0] == 's' and node[1] == TAGP + 'bool':
            # an enum member spelt like a boolean is read as a string
            node = ['s', TAGP + 'str', node[2]]
        for op in self.by[name].get('savorize') or []:
            node = self.apply_op(node, op)
        return node

    def apply_op(self, node, op):
        k = op[0]
        is_map = node[0] == 'm'
        if k == 'dashes_to_unders':
            if is_map:
                pt.dashes_to_unders(node)
        elif k == 'rename':
            if is_map:
                pt.rename(node, op[1], op[2])
        elif k == 'remove':
            if is_map:
                pt.remove(node, op[1])
        elif k == 'set_default':
            if is_map and not pt.has(node, op[1]):
                pt.set_(node, op[1], pt.scalar_pt(_lit(op[2])))
        elif k == 'word_to_int':
            if is_map:
                v = pt.get(node, op[1])
                if v is not None and v[0] == 's' and v[1] == TAGP + 'str':
                    table = dict(op[2])
                    if v[2] in table:
                        pt.set_(node, op[1], pt.scalar_pt(table[v[2]]))
        elif k == 'int_add':
            if is_map:
                v = pt.get(node, op[1])
                if v is not None and v[0] == 's' and v[1] == TAGP + 'int':
                    pt.set_(node, op[1], pt.scalar_pt(
                        construct_scalar(v[1], v[2], self.resolve) + op[2]))
        elif k in ('map_to_seq', 'map_to_index'):
            if is_map:
                try:
                    (pt.map_attribute_to_seq if k == 'map_to_seq'
                     else pt.map_attribute_to_index)(node, op[1], op[2], op[3])
                except pt.Unspecified as e:
                    raise Unsupported(str(e))
        elif k == 'scalar_upper':
            if node[0] == 's' and node[1] == TAGP + 'str':
                node = ['s', node[1], node[2].upper()]
        elif k == 'scalar_to_map_opt':
            if node[0] == 's' and node[1] in (TAGP + 'str', TAGP + 'null'):
                node = ['m', pt.MAP, [[pt.s(op[1]), ['s', node[1], node[2]]]]]
        elif k == 'scalar_to_map':
            if node[0] == 's' and node[1] == TAGP + 'str':
                node = ['m', pt.MAP, [[pt.s(op[1]), pt.s(node[2])]]]
        elif k == 'seq_to_attrs':
            if node[0] == 'q':
                if len(node[2]) != len(op[1]):
                    raise Reject('seasoning', 'expected %d items' % len(op[1]))
                node = ['m', pt.MAP, [[pt.s(n), i] for n, i in zip(op[1], node[2])]]
        elif k == 'raise_if_has':
            if is_map and pt.has(node, op[1]):
                raise Reject('seasoning', 'attribute %s not allowed' % op[1])
        elif k == 'raise_bare_if_has':
            if is_map and pt.has(node, op[1]):
                raise Reject('seasoning', 'attribute %s not allowed' % op[1])
        elif k == 'get_missing':
            if is_map and pt.keys(node).count(op[1]) != 1:
                raise Reject('seasoning', 'get_attribute(%s)' % op[1])
        else:
            raise Unsupported('savorize op %r' % (op,))
        return node

    # -- loading --------------------------------------------------------------
    def load(self, node, t=None):
        t = self.spec['doc_type'] if t is None else t
        if node is None:
            node = ['s', TAGP + 'null', '']
        return self._load(copy.deepcopy(node), t)

    def plain(self, node):
        if node[0] == 's':
            return construct_scalar(node[1], node[2], self.resolve)
        if node[0] == 'q':
            return [self.plain(i) for i in node[2]]
        out = {}
        for a, b in node[2]:
            k = self.plain(a)
            try:
                hash(k)
            except TypeError:
                raise Unsupported('unhashable key below Any')
            if k in out:
                raise Unsupported('duplicate key')
            out[k] = self.plain(b)
        return out

    def _load(self, node, t):
        ms = self.matches(node, t)
        if len(ms) == 0:
            raise Reject('no_match')
        if len(ms) > 1:
            raise Reject('ambiguous', ' / '.join(sorted(ms)))
        r = json.loads(next(iter(ms)))
        return self._load_as(node, r)

    def _load_as(self, node, r):
        if r == 'any':
            return self.plain(node)
        if isinstance(r, str):
            if r == 'path':
                return pathlib.Path(node[2])
            return construct_scalar(node[1], node[2], self.resolve)
        k = r[0]
        if k in ('list', 'seq', 'mseq'):
            if node[1] != pt.SEQ:
                raise Reject('collection_tag')
            return [self._load(i, r[1]) for i in node[2]]
        if k in ('dict', 'map', 'mmap'):
            if node[1] != pt.MAP:
                raise Reject('collection_tag')
            out = {}
            for a, b in node[2]:
                kk = self._load(a, r[1])
                vv = self._load(b, r[2])
                if kk in out:
                    raise Unsupported('duplicate key')
                out[kk] = vv
            return out
        name = r[1]
        kind = self.kind(name)
        cls = self.m.classes[name]
        node = self.savorize(node, name)
        if kind == 'enum':
            if node[0] != 's':
                raise Reject('enum_member')
            try:
                return cls[node[2]]
            except KeyError:
                raise Reject('enum_member', node[2])
        if kind != 'obj':
            if node[0] != 's':
                raise Reject('strlike_ctor')
            try:
                return cls(node[2])
            except Exception as e:
                raise Reject('ctor', repr(e))
        if node[0] != 'm':
            raise Reject('not_a_mapping_after_savorize')
        ps = {pn: (ptype, req) for pn, ptype, req in self.params(name)}
        extra_ok = bool(self.by[name].get('extra'))
        kw = OrderedDict()
        extra = OrderedDict()
        seen = set()
        # recursion happens for attributes present under their exact name
        values = {}
        for a, b in node[2]:
            if a[0] == 's' and a[2] in ps:
                if a[2] in values:
                    raise Unsupported('duplicate key')
                values[a[2]] = self._load(b, ps[a[2]][0])
        for a, b in node[2]:
            if a[0] != 's' or a[1] != TAGP + 'str':
                raise Reject('key_not_string')
            if a[2] in seen:
                raise Unsupported('duplicate key')
            seen.add(a[2])
        for pn, (ptype, req) in ps.items():
            if req and pn not in values:
                raise Reject('missing_key', pn)
        for a, b in node[2]:
            if a[2] in ps:
                kw[a[2]] = values[a[2]]
            elif extra_ok:
                extra[a[2]] = self.plain(b)
            else:
                raise Reject('unknown_key', a[2])
        if extra_ok:
            kw['_yatiml_extra'] = extra
        try:
            return cls(**kw)
        except Exception as e:
            raise Reject('ctor', repr(e))


def _lit(v):
    from yv import models
    return models.lit_val(v)


def _same(a, b):
    return type(a) is type(b) and a == b
