"""C08 - bad input is reported only as RecognitionError or a YAML error.

Domain: generated class models with every feature that can raise (raising
constructors and string-likes, savorize raising SeasoningError, permissive
recognisers, extras, Any) x texts (rendered documents with mutations, tags,
aliases, duplicate/complex/merge keys; token soup; arbitrary unicode).
Oracle: load(text) returns or raises yatiml.RecognitionError / yaml.YAMLError.
"""
import yaml
from hypothesis import strategies as st

import yatiml

from yv import gen, models, tree as T
from yv.common import exc_signature
from yv.runner import HypPhase

ID = 'C08'
RULE = ('Hypothesis draws a class model (hierarchies, abstract/unregistered '
        'classes, enums, string-likes, extras, Any/untyped, raising '
        'constructors, recognise/savorize hooks incl. ones raising '
        'SeasoningError) and a text: a rendered value of the document type '
        'with 0-2 mutations (dropped/duplicated/renamed/dashed keys, wrong '
        'scalars, swapped node kinds, explicit tags, complex keys, merge keys, '
        'anchors/aliases), a token soup of YAML indicators, or arbitrary '
        'unicode; a case is non-trivial when the text composes to a node '
        '(so yatiml code ran) or the exception came from yatiml/user code; '
        'distinct = distinct (model, text) pairs')
ASSUMPTIONS = [
    'inputs nested deeper than 20 levels, or on which PyYAML alone exhausts '
    'the stack, are outside the property ("bounded nesting"); counted, skipped',
    'models are supported ones (string dict keys, well-typed hooks): '
    'RuntimeError for programmer errors cannot occur legitimately',
    'savorize hooks raise only SeasoningError (directly or through '
    'Node.get_attribute on a missing key)',
]
BUDGET_S = {'quick': 240, 'thorough': 2400}

FEATS = ('hier', 'abstract', 'unreg', 'extra', 'enum', 'strlike', 'any',
         'untyped', 'date', 'path', 'buf', 'abstract_containers', 'defaults',
         'multi', 'raises', 'hooks', 'permissive', 'opt_any', 'underscore', 'recursive', 'seasoned')

TOKENS = ['a', 'b', 'x', '1', '1.5', 'true', '~', 'null', ':', ': ', '- ', '-',
          '? ', ',', '[', ']', '{', '}', '&a ', '*a', '&b ', '*b', '!A ', '!B ',
          '!!int ', '!!str ', '!!bool ', '!!float ', '!!timestamp ', '!!null ',
          '!!binary ', '!!set ', '!!omap ', '!!map ', '!!seq ', '!Unknown ',
          '!!python/object:os.x ', '<<', '<<: ', '=', '"', "'", '"q"', "'q'",
          '|', '>', '|\n', '\n', '\n  ', '\n    ', ' ', '  ', '#', ' #c', '---',
          '...', '%YAML 1.1\n', '%TAG ! x\n', '\t', '0x_', '0x1F', '2001-13-45',
          '2001-01-01', '1:30', 'abc', '.inf', 'k: ', 'a: ', 'b: ', 'some_key: ',
          'some-key: ', 'x: ', 'items: ', '\\', '@', '`', '%', '!', '!!', '!<x> ']


def soup():
    return st.lists(st.sampled_from(TOKENS), min_size=1, max_size=14).map(''.join)


def nested_same_class(draw, spec):
    """A recursive model: an object that contains (through a list/dict/Optional
    attribute typed as one of its ancestors) another object of its own class,
    with an unknown key or a wrong value on the *outer* object only."""
    import copy
    by = gen.classes_by_name(spec)
    cands = []
    for c in spec['classes']:
        if c.get('kind', 'obj') != 'obj' or not c.get('reg', True) or c.get('abstract'):
            continue
        anc = set()
        stack = list(c.get('bases', []))
        while stack:
            b = stack.pop()
            anc.add(b)
            stack += by[b].get('bases', [])
        for p in c.get('params', []):
            t = p.get('type')
            inner = t[1] if isinstance(t, list) and t[0] == 'opt' else t
            if isinstance(inner, list) and inner[0] in ('list', 'dict', 'opt', 'ref'):
                ref = inner[-1] if inner[0] != 'ref' else inner
                if isinstance(ref, list) and ref[0] == 'ref' and ref[1] in anc | {c['name']}:
                    cands.append((c, p, inner))
    if not cands or draw(st.booleans()):
        # the textbook recursive model
        part = {'name': 'Part', 'kind': 'obj', 'bases': [], 'params': [{'name': 'name', 'type': 'str'}]}
        asm = {'name': 'Assembly', 'kind': 'obj', 'bases': ['Part'], 'params': [
            {'name': 'name', 'type': 'str'},
            {'name': 'parts', 'type': draw(st.sampled_from(
                [['list', ['ref', 'Part']], ['dict', 'str', ['ref', 'Part']]]))}]}
        spec = {'classes': [part, asm], 'order': ['Part', 'Assembly'], 'doc_type': ['ref', 'Part']}
        cands = [(asm, asm['params'][1], asm['params'][1]['type'])]
    c, p, inner = draw(st.sampled_from(cands))
    spec2 = dict(spec, doc_type=['ref', c['name']])

    def obj():
        for _ in range(6):
            v = draw(gen.vspec_for(spec2, ['ref', c['name']], hard=False, omit_defaults=False))
            if v is not None and v[0] == 'obj' and v[1] == c['name']:
                return v
        return None
    outer, nested = obj(), obj()
    if outer is None or nested is None:
        return None
    outer = copy.deepcopy(outer)
    wrapped = {'list': ['list', [nested]], 'dict': ['dict', [[['str', 'k'], nested]]]}.get(inner[0], nested)
    outer[2] = [[n, (wrapped if n == p['name'] else x)] for n, x in outer[2]]
    if p['name'] not in [n for n, _ in outer[2]]:
        outer[2].append([p['name'], wrapped])
    t = gen.project(outer, spec2)
    how = draw(st.sampled_from(['extra', 'extra', 'wrong']))
    if how == 'extra':
        t[1].insert(draw(st.integers(0, len(t[1]))), [T.S(draw(st.sampled_from(['zz', 'note', 'Key']))), T.S('1')])
    else:
        i = draw(st.integers(0, len(t[1]) - 1))
        t[1][i][1] = T.S('wrong value')
    return ('MODEL', spec2, T.render_flow(t))


@st.composite
def special_text(draw, spec):
    """Mutated valid documents with features the tree renderer cannot express."""
    t, _ = draw(gen.doc_for(spec, tags=draw(st.booleans()), hard=False))
    text = T.render_flow(t)
    k = draw(st.sampled_from(['dupkey', 'complexkey', 'merge', 'illformed',
                              'alias', 'cycle', 'nonstrkey', 'trunc', 'insert',
                              'nested_same_class', 'nested_same_class']))
    if k == 'nested_same_class':
        r = nested_same_class(draw, spec)
        if r is not None:
            return r
        k = 'insert'
    if k == 'dupkey' and t[0] == 'm' and t[1]:
        kk = T.render_flow(t[1][0][0])
        text = '{' + kk + ': ' + T.render_flow(t[1][0][1]) + ', ' + text[1:]
    elif k == 'complexkey':
        ck = draw(st.sampled_from(['? [a, b] : 1', '? {a: 1} : 2', '? ? x : y',
                                   '? [] : 1', '? !!set {} : 1']))
        text = '{' + ck + (', ' + text[1:] if text.startswith('{') and len(text) > 2 else '}')
    elif k == 'merge':
        text = '{<<: ' + draw(st.sampled_from(['{zz: 1}', '[{a: 1}]', '1', text])) + (
            ', ' + text[1:] if text.startswith('{') and len(text) > 2 else '}')
    elif k == 'illformed':
        bad = draw(st.sampled_from(['!!int abc', '!!bool x', '!!timestamp x',
                                    '!!float x', '0x_', '2001-13-45', '!!int ""',
                                    '!!binary "%%%"', '!!null x', '!!int 0b',
                                    '-0x_', '0b_', '1:2:x', '!!float ""',
                                    '!!float .', '!!timestamp 2001-99-99',
                                    '!!int 1.5', '!!bool ""', '0_', '-_',
                                    '2001-01-01 25:61:61', '2001-02-30',
                                    '2001-01-01t10:00:00+99:99']))
        subs = [p for p, s in T.subtrees(t) if s[0] == 's']
        nums = [p for p, s in T.subtrees(t) if s[0] == 's' and not s[2]
                and s[1].lstrip('-').replace('.', '', 1).isdigit()]
        if nums and draw(st.booleans()):
            subs = nums         # a malformed number where a number is expected
        if subs:
            p = draw(st.sampled_from(subs))
            marker = 'ZZQQ'
            text = T.render_flow(T.set_at(t, p, T.S(marker))).replace(marker, bad)
        else:
            text = bad
    elif k == 'alias':
        subs = [(p, s) for p, s in T.subtrees(t) if p]
        if subs:
            p, s = draw(st.sampled_from(subs))
            p2, _ = draw(st.sampled_from(subs))
            t2 = T.set_at(t, p, ['&', 'n', s])
            if p2 != p and p2[:len(p)] != p and p[:len(p2)] != p2:
                t2 = T.set_at(t2, p2, ['*', 'n'])
                # anchor must come first in the text
                r = T.render_flow(t2)
                if r.find('&n') < r.find('*n'):
                    text = r
    elif k == 'cycle':
        text = draw(st.sampled_from([
            '&x [*x]', '&x {k: *x}', '&x {a: *x}', '{a: &x [*x]}', '&x [[*x]]',
            '&x {? *x : 1}', '[&x {a: *x}]', '{a: 1, b: &y {c: *y}}']))
    elif k == 'nonstrkey':
        kk = draw(st.sampled_from(['1', 'true', '~', '1.5', '2001-01-01', '!!binary aGk=']))
        text = '{' + kk + ': 1' + (', ' + text[1:] if text.startswith('{') and len(text) > 2 else '}')
    elif k == 'trunc' and text:
        text = text[:draw(st.integers(0, len(text)))]
    elif k == 'insert':
        i = draw(st.integers(0, len(text)))
        text = text[:i] + draw(st.sampled_from(TOKENS)) + text[i:]
    return text


@st.composite
def cases(draw):
    spec = draw(gen.models(FEATS))
    c = draw(st.integers(0, 9))
    if c <= 3:
        t, origin = draw(gen.doc_for(spec, tags=c >= 2, hard=True))
        text = T.render_flow(t)
        src = 'doc'
    elif c <= 6:
        text = draw(special_text(spec))
        src = 'special'
        if isinstance(text, tuple):     # a special text that comes with its own document type
            spec, text = text[1], text[2]
            src = 'special_nested_same_class'
    elif c <= 8:
        text = draw(soup())
        src = 'soup'
    else:
        text = draw(st.text(max_size=30))
        src = 'unicode'
    return {'model': spec, 'text': text, 'src': src}


def in_domain(text, ctx):
    """Bounded nesting; PyYAML alone must survive composing."""
    try:
        node = T.compose_raw(text)
    except yaml.YAMLError:
        return True, None
    except RecursionError:
        ctx.count('skipped_pyyaml_recursion')
        return False, None
    except Exception:
        # PyYAML's own scanner/composer failing some other way is not
        # yatiml's behaviour; load will show it too - let the oracle decide
        return True, None
    if node is not None:
        _, depth, _, _ = T.node_stats(node)
        if depth > 20:
            ctx.count('skipped_depth>20')
            return False, node
    return True, node


def check(case, ctx):
    from yv import fuzzphase
    if fuzzphase.note_stats(case, ctx):
        return
    if 'fuzz' in case:
        case = {'model': fuzzphase.model_of(case), 'text': case['text'], 'src': 'fuzz'}
    m = models.build(case['model'])
    text = case['text']
    ok, node = in_domain(text, ctx)
    if not ok:
        return
    key = [case['model'], text]
    ctx.count('src_' + case.get('src', '?'))
    load = m.load
    try:
        load(text)
        ctx.count('returned')
        if node is not None:
            ctx.nontriv(key)
            ctx.sample('returned', {'doc_type': case['model']['doc_type'], 'text': text})
        return
    except yatiml.RecognitionError as e:
        ctx.count('RecognitionError')
        ctx.nontriv(key)
        ctx.sample('RecognitionError', {'doc_type': case['model']['doc_type'], 'text': text})
        return
    except yaml.YAMLError as e:
        ctx.count('YAMLError:' + type(e).__name__)
        if node is not None:
            ctx.nontriv(key)
            ctx.sample('YAMLError', {'text': text, 'error': type(e).__name__})
        return
    except BaseException as e:
        if isinstance(e, (KeyboardInterrupt, SystemExit)):
            raise
        ctx.nontriv(key)
        ctx.count('OTHER:' + type(e).__name__)
        ctx.finding('exception_type', exc_signature(e),
                    'load raised %s: %s\n  text: %r\n  model: %s'
                    % (type(e).__name__, str(e)[:200], text, case['model']))


EXCS = ['ValueError', 'KeyError', 'TypeError', 'RuntimeError', 'AttributeError',
        'IndexError', 'ZeroDivisionError', 'LookupError', 'ArithmeticError', 'OSError',
        'AssertionError', 'NotImplementedError', 'UnicodeError', 'StopIteration', 'Exception']


def enum_raising_user_code(shard, nshards):
    """User code that raises: every string-like kind / ordinary class x every
    exception class x every position."""
    i = 0
    for exc in EXCS:
        for kind in ('strsub', 'userstring', 'ystring', 'obj'):
            if kind == 'obj':
                cls = {'name': 'R', 'kind': 'obj', 'bases': [], 'params': [{'name': 'a', 'type': 'int'}],
                       'init_raises': ['neg', 'a', exc]}
                bad, good = '{a: -1}', '{a: 1}'
            else:
                cls = {'name': 'R', 'kind': kind, 'init_raises': ['startswith', 'value', 'bad', exc]}
                bad, good = 'bad value', 'fine'
            r = ['ref', 'R']
            holder = {'name': 'H', 'kind': 'obj', 'bases': [], 'params': [
                {'name': 'x', 'type': r}, {'name': 'y', 'type': ['opt', r], 'default': ['none']}]}
            variants = [(r, bad), (['list', r], '[%s, %s]' % (good, bad)),
                        (['dict', 'str', r], '{k: %s, j: %s}' % (good, bad)),
                        (['ref', 'H'], '{x: %s, y: %s}' % (good, bad)),
                        (['union', r, 'int'], bad), (['list', ['opt', r]], '[~, %s]' % bad)]
            if kind != 'obj':
                variants.append((['dict', r, 'int'], '{%s: 1}' % bad))
            for dt, text in variants:
                if i % nshards == shard:
                    yield {'model': {'classes': [cls, holder], 'order': ['R', 'H'], 'doc_type': dt},
                           'text': text, 'src': 'raising_user_code'}
                i += 1


def phases(tier):
    n = 250 if tier != 'thorough' else 5000
    from yv.runner import EnumPhase
    ph = [HypPhase('models_x_texts', cases(), n),
          EnumPhase('raising_user_code', enum_raising_user_code,
                    '3 string-like kinds and an ordinary class whose constructor raises, x %d '
                    'exception classes x 6-7 positions' % len(EXCS))]
    if tier == 'thorough':
        from yv import fuzzphase
        ph.append(fuzzphase.fuzz_phase('C08', 400000))
    return ph
