"""C01 - a loaded value always conforms to the declared type.

Oracle: validity predicate (yv.conform) on whatever load() returns, plus the
keyword arguments every generated __init__ recorded. Any exception is an
acceptable outcome for this property (exception types are C08's business).
"""
from hypothesis import strategies as st

from yv import gen, models, tree as T
from yv.common import canon
from yv.conform import Conf
from yv.runner import HypPhase

ID = 'C01'
RULE = ('Hypothesis draws a class model with all features switched on '
        '(hierarchies, abstract and unregistered classes, enums, string-likes '
        'also as dict keys, Union/Optional, List/Dict and abstract variants, '
        'Any/untyped, date, Path, bool_union_fix, extras, permissive '
        '_yatiml_recognize, node-rewriting and adversarial _yatiml_savorize) '
        'and a document: a rendered value of the document type with 0-2 '
        'mutations and optional explicit tags, a random tree over the model\'s '
        'vocabulary, or an empty/comment-only/null stream; a case is '
        'non-trivial when the load succeeded and the value contains at least '
        'one container or class instance; distinct = distinct (model, text)')
ASSUMPTIONS = [
    'conformance is judged on the attributes stored by the generated '
    '__init__ (which stores its arguments unchanged) and on the logged kwargs',
    'below Any/untyped/extra positions core-schema scalars may be bytes/date '
    '(core tags are honoured there); only non-plain objects are violations',
]
BUDGET_S = {'quick': 240, 'thorough': 2400}

FEATS = ('hier', 'abstract', 'unreg', 'extra', 'enum', 'strlike', 'any',
         'untyped', 'date', 'path', 'buf', 'abstract_containers', 'defaults',
         'multi', 'hooks', 'permissive', 'adversarial', 'opt_any', 'seasoned', 'underscore', 'recursive')

EMPTY = ['', '# just a comment\n', '---\n...\n', 'null', '~', '---\n', '\n\n',
         '--- # c\n', '!!null ""', '--- !!str\n']


@st.composite
def cases(draw):
    spec = draw(gen.models(FEATS))
    c = draw(st.sampled_from(list(range(12)) + [10] * 5 + [11] * 7))
    if c == 0:
        return {'model': spec, 'text': draw(st.sampled_from(EMPTY)), 'src': 'empty'}
    if c in (4, 9):
        # an otherwise valid document with one boolean where an int is:
        # isinstance(True, int) holds in Python
        t, origin = draw(gen.doc_for(spec, tags=False, hard=False, mutations=False))
        t = boolify(draw, t, one=True)
        origin = origin.split(':')[0] + '+one_bool_for_int'
    else:
        t, origin = draw(gen.doc_for(spec, tags=c >= 8, hard=c % 2 == 0))
        if c in (7, 8) and draw(st.booleans()):
            # a well-formed tagged object of a registered class (with a bool
            # for an int now and then) below an extra / unknown key or in a list
            from yv.props import c04
            t2 = c04.tagged_object_below_unknown_key(draw, spec, t)
            if t2 is not None:
                t, origin = boolify(draw, t2), origin.split(':')[0] + '+tagged_extra'
    if c == 11:
        from yv.props import c04
        t2 = c04.alias_typed(draw, spec) if draw(st.integers(0, 3)) > 0 else None
        if t2 is not None:
            # one scalar node at a plain-string position and at an enum /
            # string-like / Path position
            t, origin = t2, 'value+alias_typed'
        else:
            t, _ = draw(gen.share(t))
            origin = origin.split(':')[0] + '+alias'
    elif c == 10 and draw(st.integers(0, 3)) == 0:
        # a key given twice where the automatic recogniser cannot see it (custom
        # recogniser, or two spellings that savorize makes collide): the second
        # occurrence holds a near-miss value
        from yv.props import c04
        r = c04.duplicate_tagged(draw, spec, subs=[T.S('true'), T.S('false'), T.Q([T.S('true')]),
                                                   T.M([('k', T.S('true'))]), T.S('1.5')])
        if r is not None:
            return {'model': r[0], 'text': T.render_flow(r[1]), 'src': 'value+duplicate_near_miss'}
        t2 = merge_optional(draw, spec)
        if t2 is not None:
            t, origin = t2, 'value+merge_optional'
    elif c == 10:
        t2 = merge_optional(draw, spec)
        if t2 is not None:
            t, origin = t2, 'value+merge_optional'
        else:
            t, ops = draw(gen.mutate(spec, t, n=1, kinds=['merge_split']))
            origin = origin.split(':')[0] + '+merge'
    return {'model': spec, 'text': T.render_flow(t), 'src': origin.split(':')[0]}


def obj_sites(v, spec, path=()):
    """(tree path, class name) of every class instance in a value spec; the
    projection keeps the structure, so kw index i is pair i of the mapping."""
    k = v[0]
    if k == 'obj':
        if not gen.classes_by_name(spec)[v[1]].get('index'):
            yield path, v
            for i, (n, x) in enumerate(v[2]):
                yield from obj_sites(x, spec, path + (1, i, 1))
    elif k == 'list':
        for i, x in enumerate(v[1]):
            yield from obj_sites(x, spec, path + (1, i))
    elif k in ('dict', 'odict'):
        for i, (a, b) in enumerate(v[1]):
            yield from obj_sites(b, spec, path + (1, i, 1))


def boolify(draw, t, one=False):
    """Replace int-looking scalar leaves (one, or each with probability 2/3)
    by booleans (isinstance(True, int))."""
    import copy
    t = copy.deepcopy(t)
    sites = [p for p, s in T.subtrees(t)
             if s[0] == 's' and not s[2] and s[1].lstrip('-').isdigit() and (not p or p[-1] != 0)]
    if one:
        sites = [draw(st.sampled_from(sites))] if sites else []
    for p in sites:
        if one or draw(st.integers(0, 2)) > 0:
            t = T.set_at(t, p, T.S(draw(st.sampled_from(['true', 'false']))))
    return t


def merge_optional(draw, spec):
    """A valid document in which the optional attributes of one class mapping
    arrive through a YAML merge key ('<<'), with near-miss values."""
    v = draw(gen.vspec_for(spec, spec['doc_type'], hard=False, omit_defaults=False))
    if v is None:
        return None
    sites = list(obj_sites(v, spec))
    by = gen.classes_by_name(spec)
    sites = [(p, o) for p, o in sites
             if any('default' in q for q in by[o[1]].get('params', []))]
    if not sites:
        return None
    path, o = draw(st.sampled_from(sites))
    t = gen.project(v, spec)
    mp = T.get_at(t, path)
    opt = {q['name'] for q in by[o[1]]['params'] if 'default' in q}
    idx = [i for i, (n, _) in enumerate(o[2]) if n in opt]
    if not idx:
        return None
    chosen = draw(st.lists(st.sampled_from(idx), min_size=1, unique=True))
    moved = T.M([])
    moved[1] = [mp[1][i] for i in sorted(chosen)]
    moved = boolify(draw, moved)
    rest = [pr for i, pr in enumerate(mp[1]) if i not in chosen]
    new = ['m', [[T.S('<<'), moved]] + rest, mp[2]]
    return T.set_at(t, path, new)


NEAR = {'true': T.S('true'), 'false': T.S('false'), 'x': T.S('x'), '1.5': T.S('1.5'),
        '~': T.S('~'), '"1"': T.S('1', '"'), '[1]': T.Q([T.S('1')]),
        '{a: 1}': T.M([('a', T.S('1'))]), '1': T.S('1'), '2001-01-01': T.S('2001-01-01')}


@st.composite
def inherited_hook_cases(draw):
    """A registered class B whose _yatiml_savorize rewrites an attribute, and a
    registered subclass HD without hooks of its own (recognised from its
    signature, savorized by B's hook): a document for HD in which the value that
    the hook moves / sets is a near miss for the declared type."""
    import copy
    spec = copy.deepcopy(draw(gen.models(('hier', 'defaults', 'enum', 'date', 'any', 'extra'))))
    cands = [c for c in spec['classes'] if c.get('kind', 'obj') == 'obj'
             and not c.get('abstract') and c.get('reg', True) and not c.get('recognize')
             and not c.get('index')]
    if not cands:
        return draw(cases())
    b = draw(st.sampled_from(cands))
    typed = [q for q in b['params'] if q.get('type') in ('int', 'float', 'str', 'bool', 'date')
             or (isinstance(q.get('type'), list) and q['type'][0] in ('opt', 'union', 'list'))]
    if not typed:
        b['params'].insert(0, {'name': 'count', 'type': draw(st.sampled_from(
            ['int', 'int', 'float', ['opt', 'int'], ['list', 'int']]))})
        typed = [b['params'][0]]
    q = draw(st.sampled_from(typed))
    hd = {'name': 'HD', 'kind': 'obj', 'bases': [b['name']],
          'params': copy.deepcopy(b['params']) + [{'name': 'hd_only', 'type': 'float'}]}
    if b.get('extra'):
        hd['extra'] = b['extra']
    hd['params'] = [x for x in hd['params'] if 'default' not in x] + \
        [x for x in hd['params'] if 'default' in x]
    spec['classes'].append(hd)
    spec['order'] = list(spec.get('order') or []) + ['HD']
    how = draw(st.sampled_from(['rename', 'rename', 'set_wrong', 'set_default']))
    near = draw(st.sampled_from(sorted(NEAR)))
    lit = {'true': ['bool', True], 'false': ['bool', False], 'x': ['str', 'x'],
           '1.5': ['float', '1.5'], '~': ['none'], '1': ['int', 1]}
    if how != 'rename' and near not in lit:
        near = 'true'
    if how == 'rename':
        op = ['rename', 'legacy', q['name']]
    elif how == 'set_wrong':
        op = ['set_wrong', q['name'], lit[near]]
    else:
        op = ['set_default', q['name'], lit[near]]
    b['savorize'] = list(b.get('savorize') or []) + [op]
    v = draw(gen.vspec_for(spec, ['ref', 'HD'], hard=False, omit_defaults=False))
    if v is None or v[1] != 'HD':
        return draw(cases())
    t = gen.project(v, spec)
    pairs = t[1]
    if how == 'rename':
        t[1] = [[T.S('legacy') if k[0] == 's' and k[1] == q['name'] else k,
                 (copy.deepcopy(NEAR[near]) if k[0] == 's' and k[1] == q['name'] else x)]
                for k, x in pairs]
    elif how == 'set_default':
        t[1] = [[k, x] for k, x in pairs if not (k[0] == 's' and k[1] == q['name'])]
    wrap = draw(st.sampled_from(['hd', 'base', 'list', 'dict']))
    if wrap == 'hd':
        spec['doc_type'] = ['ref', 'HD']
    elif wrap == 'base':
        spec['doc_type'] = ['ref', b['name']]
    elif wrap == 'list':
        spec['doc_type'] = ['list', ['ref', b['name']]]
        t = T.Q([t])
    else:
        spec['doc_type'] = ['dict', 'str', ['ref', b['name']]]
        t = T.M([('k', t)])
    return {'model': spec, 'text': T.render_flow(t), 'src': 'inherited_hook_' + how}


def gen_alias(draw, t):
    subs = list(T.subtrees(t))
    if len(subs) < 3:
        return t
    i = draw(st.integers(1, len(subs) - 2))
    j = draw(st.integers(i + 1, len(subs) - 1))
    (p, s), (q, _) = subs[i], subs[j]
    if q[:len(p)] == p:
        return t
    t2 = T.set_at(t, q, ['*', 'n'])
    return T.set_at(t2, p, ['&', 'n', s])


def has_structure(v):
    from yv.common import is_gen_obj
    return is_gen_obj(v) or isinstance(v, (list, dict))


def check(case, ctx):
    from yv import fuzzphase
    if fuzzphase.note_stats(case, ctx):
        return
    if 'fuzz' in case:
        case = {'model': fuzzphase.model_of(case), 'text': case['text'], 'src': 'fuzz'}
    if 'portfolio' in case:
        from yv import portfolio
        case = dict(case, model=portfolio.MODELS[case['portfolio']], src='enum')
    m = models.build(case['model'])
    load = m.load
    text = case['text']
    ctx.count('src_' + case.get('src', '?'))
    try:
        v = load(text)
    except RecursionError:
        ctx.count('raised_RecursionError')
        return
    except Exception as e:
        ctx.count('raised_' + ('RecognitionError' if type(e).__name__ == 'RecognitionError' else 'other'))
        return
    ctx.count('loaded')
    conf = Conf(m)
    why = []
    if not conf.conforms(v, case['model']['doc_type'], why):
        ctx.finding('value', 'nonconforming_value',
                    'load returned %s for document type %r\n  reason: %s\n  text: %r\n  model: %s'
                    % (canon(v), case['model']['doc_type'], '; '.join(why[:3]),
                       text, case['model']))
        return
    why = []
    if not conf.check_init_log(why):
        ctx.finding('init_args', 'nonconforming_constructor_argument',
                    'a constructor received a non-conforming argument: %s\n  text: %r\n  model: %s'
                    % ('; '.join(why[:3]), text, case['model']))
        return
    if has_structure(v):
        ctx.nontriv([case['model'], text])
        ctx.sample('loaded_' + case.get('src', '?'),
                   {'doc_type': case['model']['doc_type'], 'text': text,
                    'value': canon(v)})


def phases(tier):
    n = 560 if tier != 'thorough' else 6000
    from yv.props import c03
    from yv.runner import EnumPhase
    k = 3 if tier != 'thorough' else 4
    ph = [HypPhase('models_x_documents', cases(), n),
          HypPhase('inherited_hooks', inherited_hook_cases(), n // 8),
          EnumPhase('small_tagged_documents', c03.enum_tagged(k),
                    'every mapping document of <=%d nodes over the hierarchy portfolio models x '
                    'every class tag of the model (also classes outside the expected hierarchy), '
                    '!Unknown, !!map and no tag on the root: whatever loads must conform' % k)]
    if tier == 'thorough':
        from yv import fuzzphase
        ph.append(fuzzphase.fuzz_phase('C01', 200000))
    return ph
