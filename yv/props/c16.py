"""C16 - UnknownNode.require_* accept exactly the nodes they describe.

Oracle: predicates written from the docstrings (yv.refsem.Ref.eval_clause,
using the reference matcher for typed require_attribute); outcome must be
"returns" or RecognitionError accordingly, nothing else, node unchanged.
"""
import copy

import yaml
from hypothesis import strategies as st

import yatiml
from yatiml.helpers import UnknownNode
from yatiml.recognizer import Recognizer

from yv import gen, models, pt, refsem, tree as T
from yv.common import exc_signature
from yv.runner import HypPhase

ID = 'C16'
RULE = ('Hypothesis draws a small registered model (hierarchies, enums, '
        'string-likes, abstract classes), a node (document derived from a '
        'value of the model, a mutation of one, or a random tree; mappings '
        'have distinct string keys) and one requirement call: require_scalar '
        'with 0-3 types, require_mapping, require_sequence, '
        'require_attribute(name[, type from the full type language]), '
        'require_attribute_value(_not)(name, scalar of the five kinds); names '
        'are mostly keys of the node and values mostly the values found '
        'there. Non-trivial: the attribute is present so that type/value '
        'comparison decided, or the call is require_scalar with types on a '
        'scalar; distinct = distinct (model, node, call)')
ASSUMPTIONS = [
    '"recognisable as that type" = the reference matcher finds at least one '
    'matching type (an ambiguous attribute is still recognisable)',
    'for nodes with duplicate keys no predicate is asserted (undocumented which occurrence counts): only that the helper returns or raises RecognitionError and leaves the node unmodified',
    'UnknownNode is constructed directly with a Recognizer built from the '
    'load function\'s registered classes, as the loader does',
]
BUDGET_S = {'quick': 240, 'thorough': 2400}

FEATS = ('hier', 'abstract', 'enum', 'strlike', 'defaults', 'date', 'path',
         'buf', 'abstract_containers', 'any', 'norecognize')

LITS = [['bool', True], ['int', 7], ['str', 'x'], ['str', '1'], ['str', ''], ['str', 'true'], ['int', 1],
        ['int', 0], ['int', 31], ['int', 15], ['float', '1.5'], ['float', '1.0'],
        ['bool', True], ['bool', False], ['none']]


def lit_of_scalar(s):
    """A literal spec equal to what the scalar tree would load as (best effort)."""
    tag = T.resolve_plain(s[1]) if not s[2] else T.TAGP + 'str'
    kind = tag.rsplit(':', 1)[-1]
    try:
        if kind == 'int':
            return ['int', yaml.safe_load(s[1]) if isinstance(yaml.safe_load(s[1]), int) else 0]
        if kind == 'float':
            return ['float', repr(float(s[1]))]
        if kind == 'bool':
            return ['bool', s[1].lower() == 'true']
        if kind == 'null':
            return ['none']
        if kind == 'str':
            return ['str', s[1]]
    except Exception:
        pass
    return ['str', s[1]]


@st.composite
def cases(draw):
    spec = draw(gen.models(FEATS, max_classes=4))
    t, origin = draw(gen.doc_for(spec, tags=False, hard=False))
    if draw(st.integers(0, 3)) == 0:
        t = T.M([('a', copy.deepcopy(t)), ('x', T.S('0x1F')), ('b', T.S('017')),
                 ('y', T.S(draw(st.sampled_from(['yes', 'on', 'No', 'true'])), '', '!!bool')),
                 ('c', draw(st.sampled_from([T.S('foo', '', '!!int'), T.S('0x_'), T.S('', '"', '!!int'),
                                             T.S('foo', '', '!!float'), T.S('7')])))])
    elif t[0] != 'm' and draw(st.integers(0, 2)) > 0:
        t = T.M([(draw(st.sampled_from(gen.PARAM_NAMES)), copy.deepcopy(t)),
                 ('val', draw(gen.scalar_trees(spec)))])
    if draw(st.integers(0, 4)) == 0:
        # explicit tags: a collection may carry a scalar's core tag and vice versa
        t, _ops = draw(gen.mutate(spec, t, n=draw(st.integers(1, 2)), kinds=['tag']))
    keys = [k[1] for k, _ in t[1]] if t[0] == 'm' else []
    keys = [k for k in keys if isinstance(k, str)]
    name = draw(st.sampled_from(keys)) if keys and draw(st.integers(0, 3)) > 0 \
        else draw(st.sampled_from(gen.PARAM_NAMES + ['zz']))
    kind = draw(st.sampled_from(['scalar', 'scalar', 'mapping', 'sequence', 'attr',
                                 'attr_type', 'attr_type', 'attr_value', 'attr_value',
                                 'attr_value_not', 'attr_value_not']))
    if kind == 'scalar':
        ts = draw(st.lists(st.sampled_from(['str', 'int', 'float', 'bool', 'none', 'date']),
                           max_size=3, unique=True))
        call = ['scalar', ts]
        if draw(st.booleans()):
            t = draw(gen.scalar_trees(spec))
    elif kind in ('mapping', 'sequence'):
        call = [kind]
    elif kind == 'attr':
        call = ['attr', name]
    elif kind == 'attr_type':
        objs = [c['name'] for c in spec['classes'] if c.get('kind', 'obj') == 'obj']
        enums = [c['name'] for c in spec['classes'] if c.get('kind') == 'enum']
        strs = [c['name'] for c in spec['classes'] if c.get('kind') in ('strsub', 'userstring', 'ystring')]
        ty = draw(gen.type_exprs(objs, enums, strs, 2, FEATS))
        # bias: the declared type of that attribute in some class
        decl = [p['type'] for c in spec['classes'] for p in c.get('params', [])
                if p['name'] == name and p.get('type') is not None]
        if decl and draw(st.booleans()):
            ty = draw(st.sampled_from(decl))
        elif t[0] == 'm' and draw(st.booleans()):
            vs = [v for k, v in t[1] if k[1] == name]
            if vs and vs[0][0] == 's':
                kd = {'none': 'none'}.get(lit_of_scalar(vs[0])[0], lit_of_scalar(vs[0])[0])
                ty = draw(st.sampled_from([kd, ['opt', kd], ['union', kd, ['list', 'int']]]))
            elif vs and vs[0][0] == 'q':
                ty = draw(st.sampled_from([['list', 'any'], ['seq', ty]]))
            elif vs:
                ty = draw(st.sampled_from([['dict', 'str', 'any'], ['map', 'str', ty]]))
        if isinstance(ty, str) and ty in ('str', 'int', 'float', 'bool', 'none') and t[0] == 'm' \
                and name in keys and draw(st.integers(0, 3)) == 0:
            # a collection carrying exactly that scalar's core tag is not that scalar
            core = '!!' + {'none': 'null'}.get(ty, ty)
            coll = draw(st.sampled_from([T.Q([T.S('1'), T.S('2')], core), T.M([('b', T.S('1'))], core),
                                         T.Q([], core)]))
            t = copy.deepcopy(t)
            for pr in t[1]:
                if pr[0][1] == name:
                    pr[1] = coll
        if enums and t[0] == 'm' and name in keys and draw(st.integers(0, 4)) == 0:
            # an enum-typed requirement on a bool-looking scalar (enums accept those)
            en = ['ref', draw(st.sampled_from(enums))]
            ty = draw(st.sampled_from([en, ['opt', en], ['union', en, 'int'], ['list', en]]))
            t = copy.deepcopy(t)
            for pr in t[1]:
                if pr[0][1] == name:
                    pr[1] = draw(st.sampled_from([T.S('true'), T.S('False'), T.S('red'), T.Q([T.S('true')])]))
        call = ['attr_type', name, ty]
    else:
        lit = draw(st.sampled_from(LITS))
        if t[0] == 'm' and draw(st.integers(0, 2)) > 0:
            vs = [v for k, v in t[1] if k[1] == name and v[0] == 's']
            if vs:
                lit = lit_of_scalar(vs[0])
        call = [kind, name, lit]
    if t[0] == 'm' and t[1] and draw(st.integers(0, 7)) == 0:
        # the attribute written twice: which of the two counts is not documented
        # (no predicate is asserted), but the helper still either returns or
        # raises RecognitionError, and leaves the node alone
        t = copy.deepcopy(t)
        named = [pr for pr in t[1] if pr[0][1] == name]
        pr = copy.deepcopy(named[0] if named else t[1][0])
        if draw(st.booleans()):
            pr[1] = draw(gen.scalar_trees(spec))
        t[1].insert(draw(st.integers(0, len(t[1]))), pr)
    return {'model': spec, 'tree': t, 'call': call}


def do_call(un, m, call):
    k = call[0]
    if k == 'scalar':
        tys = [{'str': str, 'int': int, 'float': float, 'bool': bool, 'none': None,
                'date': m.ns['date']}[x] for x in call[1]]
        un.require_scalar(*tys)
    elif k == 'mapping':
        un.require_mapping()
    elif k == 'sequence':
        un.require_sequence()
    elif k == 'attr':
        un.require_attribute(call[1])
    elif k == 'attr_type':
        un.require_attribute(call[1], m.ty(call[2]))
    elif k == 'attr_value':
        un.require_attribute_value(call[1], models.lit_val(call[2]))
    elif k == 'attr_value_not':
        un.require_attribute_value_not(call[1], models.lit_val(call[2]))


def check(case, ctx):
    spec, call = case['model'], case['call']
    m = models.build(spec)
    text = T.render_flow(case['tree'])
    try:
        ynode = T.compose_raw(text)
    except yaml.YAMLError:
        ctx.count('unparseable')
        return
    if ynode is None:
        return
    before = T.plain(ynode)
    node = pt.from_plain(before)
    ref = refsem.Ref(m)
    try:
        try:
            want = ref.eval_clause(node, call)
        except refsem.Reject:
            want = False
    except refsem.Unsupported:
        # e.g. duplicate keys: no documented answer; only "returns or raises
        # RecognitionError" and purity are checked
        ctx.count('reference_unsupported_weak_oracle_only')
        want = None
    L = m.load.loader
    un = UnknownNode(Recognizer(L._registered_classes, L._additional_classes), ynode)
    try:
        do_call(un, m, call)
        got = True
    except yatiml.RecognitionError:
        got = False
    except Exception as e:
        ctx.finding('exception', call[0] + ':' + exc_signature(e),
                    '%s raised %s: %s\n  node: %s\n  model: %s' % (call, type(e).__name__, e, text, spec))
        return
    if want is None:
        after = T.plain(un.yaml_node)
        if after != before or T.plain(ynode) != before:
            ctx.finding('purity', call[0] + ':node_modified',
                        '%s modified the node\n  before: %r\n  after:  %r\n  model: %s'
                        % (call, before, after, spec))
        return
    ctx.count('%s_%s' % (call[0], 'pass' if want else 'fail'))
    present = call[0].startswith('attr') and node[0] == 'm' and pt.has(node, call[1])
    if (present and call[0] != 'attr') or (call[0] == 'scalar' and call[1] and node[0] == 's'):
        ctx.nontriv([spec['classes'], text, call])
        ctx.sample('%s_%s' % (call[0], 'pass' if want else 'fail'),
                   {'node': text, 'call': call})
    if got is not want:
        ctx.finding('predicate', '%s:%s' % (call[0], 'accepts_but_should_reject' if got else 'rejects_but_should_accept'),
                    '%s %s on the node, the documented condition is %s\n  node: %s\n  model: %s'
                    % (call, 'returned' if got else 'raised RecognitionError',
                       'satisfied' if want else 'not satisfied', text, spec))
        return
    after = T.plain(un.yaml_node)
    if after != before or T.plain(ynode) != before:
        ctx.finding('purity', call[0] + ':node_modified',
                    '%s modified the node\n  before: %r\n  after:  %r\n  model: %s'
                    % (call, before, after, spec))


def phases(tier):
    n = 500 if tier != 'thorough' else 6000
    return [HypPhase('requirements', cases(), n)]
