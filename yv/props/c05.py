"""C05 - loading what was dumped gives back an equal object (YAML round trip).

Oracle: load(dumps(v)) is structurally equal to v. Whether v is unambiguous
(and the seasoning pair inverse) is decided independently of the dumped text:
the reference semantics (yv.refsem) must read the *projection* of v (yv.proj,
what the documentation says the YAML contains) back as an equal value.
"""
import datetime
import math

import yaml
from hypothesis import strategies as st

import yatiml

from yv import gen, models, proj, pt, refsem
from yv.common import canon, exc_signature, is_gen_obj, strict_eq
from yv.runner import EnumPhase, HypPhase

ID = 'C05'
RULE = ('Hypothesis draws a class model (hierarchies, discriminating '
        'recognisers, enums, string-likes also as keys, Path, dates, Any/'
        'untyped, extras, defaults, sweeten/savorize pairs that are inverses: '
        'default removal, renaming, dashes, added markers, '
        '_yatiml_attributes permutations, seq/index<->map) and a value of the '
        'document type from the hard pools (strings that look like numbers, '
        'booleans, nulls, dates, YAML syntax; non-finite floats; tz-aware '
        'datetimes), optionally with a sub-object referenced twice; values '
        'whose projection the reference semantics do not read back as an '
        'equal value (ambiguous models, lossy hooks) are discarded and '
        'counted. Plus: every string of the adversarial pool x {document, '
        'list item, dict key, dict value, attribute, Any attribute, extra '
        'attribute, string-like, path}. Non-trivial: the value has a hard '
        'feature (adversarial string, non-finite float, date, path, enum, '
        'string-like key, extras, dropped default, seasoned class, shared '
        'object); distinct = distinct (model, value)')
ASSUMPTIONS = [
    'datetimes compare with == (by instant for tz-aware values); floats by '
    'value with NaN equal to NaN; int/float/bool distinguished',
    'object identity is not compared: a twice-referenced object may come '
    'back as two equal objects',
]
BUDGET_S = {'quick': 240, 'thorough': 2400}

FEATS = ('hier', 'abstract', 'extra', 'enum', 'strlike', 'any', 'untyped',
         'date', 'path', 'defaults', 'sweeten', 'inverse', 'seasoned',
         'abstract_containers', 'buf', 'multi', 'discriminator', 'scalarized')


@st.composite
def cases(draw):
    spec = draw(gen.models(FEATS))
    v = draw(gen.vspec_for(spec, spec['doc_type'], hard=True))
    if v is None:
        # no instantiable class for the document type: dump plain data instead
        spec = dict(spec, doc_type='any')
        v = draw(gen.vspec_for(spec, 'any', hard=True))
    return {'model': spec, 'value': v, 'share': draw(st.integers(0, 4)) == 0}


# (type, default, values that look like the default without being it)
OB, UIB, USB = ['opt', 'bool'], ['union', 'int', 'bool'], ['union', 'str', 'bool']
LOOKALIKE = [
    (OB, ['none'], [['bool', False], ['bool', True]]),
    (OB, ['bool', False], [['none'], ['bool', True]]),
    (UIB, ['int', 3], [['bool', True], ['bool', False], ['int', 1]]),
    (UIB, ['int', 0], [['bool', False], ['bool', True]]),
    (UIB, ['bool', True], [['int', 2], ['int', 0]]),
    (USB, ['str', 'false'], [['bool', False], ['str', 'False']]),
    (USB, ['str', 'auto'], [['bool', True], ['bool', False], ['str', '']]),
    (USB, ['str', ''], [['bool', False]]),
    (USB, ['bool', False], [['str', 'false'], ['str', ''], ['str', 'no']]),
    ('any', ['none'], [['bool', False], ['int', 0], ['str', ''], ['float', '0.0'], ['str', 'null'],
                       ['str', '~'], ['list', []], ['dict', []]]),
    ('any', ['int', 0], [['bool', False], ['str', '0'], ['none'], ['str', '']]),
    ('any', ['str', ''], [['bool', False], ['none'], ['int', 0]]),
    ('any', ['bool', False], [['int', 0], ['none'], ['str', ''], ['str', 'false'], ['str', 'no']]),
    ('any', ['bool', True], [['int', 2], ['str', 'true'], ['str', 'yes'], ['str', 'on']]),
    ('any', ['str', 'true'], [['bool', True], ['str', 'True']]),
    ('any', ['str', '1'], [['int', 1], ['float', '1.0']]),
    ('any', ['str', '1.5'], [['float', '1.5']]),
    ('any', ['float', '1.5'], [['str', '1.5']]),
    (None, ['none'], [['bool', False], ['str', ''], ['int', 0]]),
    (['opt', 'int'], ['none'], [['int', 0]]),
    (['opt', 'str'], ['none'], [['str', ''], ['str', 'null'], ['str', '~'], ['str', 'None']]),
    (['opt', 'float'], ['none'], [['float', '0.0'], ['float', 'nan']]),
    (['union', 'str', 'int'], ['int', 7], [['str', '7']]),
    (['union', 'str', 'int'], ['str', '7'], [['int', 7]]),
    (['union', 'str', 'float'], ['str', '.inf'], [['float', 'inf']]),
    # enums: Lv is class Lv(str, Enum) whose values are other members' names
    (['ref', 'Lv'], ['enum', 'Lv', 'low'], [['enum', 'Lv', 'high'], ['enum', 'Lv', 'mid']]),
    (['ref', 'Lv'], ['enum', 'Lv', 'mid'], [['enum', 'Lv', 'low'], ['enum', 'Lv', 'high']]),
    (['ref', 'Pe'], ['enum', 'Pe', 'low'], [['enum', 'Pe', 'high']]),
    (['union', ['ref', 'Lv'], 'int'], ['int', 1], [['enum', 'Lv', 'low']]),
    (['opt', ['ref', 'Lv']], ['none'], [['enum', 'Lv', 'low']]),
    (['ref', 'Us'], ['strlike', 'Us', 'x'], [['strlike', 'Us', 'X'], ['strlike', 'Us', '']]),
]
LOOK_CLASSES = [{'name': 'Lv', 'kind': 'enum', 'members': ['low', 'high', 'mid'], 'str_mixin': True},
                {'name': 'Pe', 'kind': 'enum', 'members': ['low', 'high']},
                {'name': 'Us', 'kind': 'userstring'}]


@st.composite
def lookalike_cases(draw):
    """A class that drops defaults when dumped; attribute values that are not
    the default but resemble it (same truthiness, same spelling, other type)."""
    rows = draw(st.lists(st.sampled_from(LOOKALIKE), min_size=1, max_size=3))
    if draw(st.integers(0, 2)) == 0:
        # several parameters of one type with different defaults
        t0 = rows[0][0]
        same = [r for r in LOOKALIKE if r[0] == t0]
        rows = draw(st.lists(st.sampled_from(same), min_size=2, max_size=3))
    params = [{'name': 'req', 'type': 'int'}]
    kw = [['req', ['int', 1]]]
    extra_first = draw(st.booleans())
    for i, (t, d, vals) in enumerate(rows):
        params.append({'name': 'p%d' % i, 'type': t, 'default': d})
        # also the default of a neighbouring parameter, where the type admits it
        others = [r[1] for j, r in enumerate(rows) if j != i and r[0] == t and r[1] != d]
        kw.append(['p%d' % i, draw(st.sampled_from(vals + vals + [d] + others * 3))])
    cls = {'name': 'D', 'kind': 'obj', 'bases': [], 'params': params,
           'sweeten': [['remove_defaults']]}
    if extra_first:
        # _yatiml_extra with a default, in the signature before the other defaults
        cls['extra'] = 'default_first'
    classes = [dict(c) for c in LOOK_CLASSES] + [cls]
    doc = ['ref', 'D']
    ex = [] if extra_first else None
    if extra_first and draw(st.booleans()):
        ex = [['note', ['str', 'n']]]
    v = ['obj', 'D', kw, ex]
    if draw(st.booleans()):
        # dumped through a subclass: the base class's hook sees the subclass
        sub = {'name': 'E', 'kind': 'obj', 'bases': ['D'], 'params':
               [params[0], {'name': 'e_only', 'type': 'str'}] + params[1:]}
        if extra_first:
            sub['extra'] = 'default_first'
        classes.append(sub)
        v = ['obj', 'E', [kw[0], ['e_only', ['str', 'x']]] + kw[1:], ex]
    spec = {'classes': classes, 'doc_type': doc, 'order': [c['name'] for c in classes]}
    if draw(st.booleans()):
        spec['doc_type'] = ['list', doc]
        v = ['list', [v]]
    return {'model': spec, 'value': v, 'share': False}


def to_pt(p):
    """python plain projection -> PT with the tags a YAML reader would see."""
    if isinstance(p, dict):
        return ['m', pt.MAP, [[to_pt(k), to_pt(v)] for k, v in p.items()]]
    if isinstance(p, list):
        return ['q', pt.SEQ, [to_pt(x) for x in p]]
    if isinstance(p, bool):
        return ['s', pt.BOOL, 'true' if p else 'false']
    if p is None:
        return ['s', pt.NULL, 'null']
    if isinstance(p, str):
        return ['s', pt.STR, p]
    if isinstance(p, int):
        return ['s', pt.INT, str(p)]
    if isinstance(p, float):
        if math.isnan(p):
            return ['s', pt.FLOAT, '.nan']
        if math.isinf(p):
            return ['s', pt.FLOAT, '.inf' if p > 0 else '-.inf']
        return ['s', pt.FLOAT, repr(p)]
    if isinstance(p, datetime.datetime):
        return ['s', pt.TAGP + 'timestamp', p.isoformat(' ')]
    if isinstance(p, datetime.date):
        return ['s', pt.TAGP + 'timestamp', p.isoformat()]
    raise ValueError(p)


HARD_SET = set(gen.HARD_STRINGS) - set(gen.SIMPLE_STRINGS)


def features(v, m, out):
    if is_gen_obj(v):
        c = m.by[type(v).__name__]
        if c.get('extra') and v._yatiml_extra:
            out.add('extras')
            features(dict(v._yatiml_extra), m, out)
        chain = [type(v).__name__] + c.get('bases', [])
        if any(m.by[x].get('sweeten') for x in chain):
            out.add('seasoned')
        for p in c.get('params', []):
            a = getattr(v, p['name'], None)
            if 'default' in p and any(['remove_defaults'] in (m.by[x].get('sweeten') or []) for x in chain):
                out.add('default_removal')
            features(a, m, out)
    elif isinstance(v, dict):
        for k, x in v.items():
            if type(k).__name__ in m.by:
                out.add('strlike_key')
            features(k, m, out)
            features(x, m, out)
    elif isinstance(v, list):
        for x in v:
            features(x, m, out)
    elif type(v).__name__ in m.by:
        out.add('enum' if m.by[type(v).__name__].get('kind') == 'enum' else 'strlike')
        if str(v) in HARD_SET:
            out.add('hard_string')
    elif isinstance(v, str):
        if v in HARD_SET or not v.isalnum():
            out.add('hard_string')
    elif isinstance(v, float) and (math.isnan(v) or math.isinf(v)):
        out.add('nonfinite_float')
    elif isinstance(v, datetime.date):
        out.add('date')
    elif hasattr(v, 'parts'):
        out.add('path')
    return out


def share_in(value):
    if isinstance(value, list) and value and (is_gen_obj(value[0]) or isinstance(value[0], (list, dict))):
        value.append(value[0])
        return True
    if isinstance(value, dict) and value:
        k0 = next(iter(value))
        if type(k0) is str and 'shared_copy' not in value and \
                (is_gen_obj(value[k0]) or isinstance(value[k0], (list, dict))):
            value['shared_copy'] = value[k0]
            return True
    return False


def check(case, ctx):
    from yv import fuzzphase
    if fuzzphase.note_stats(case, ctx):
        return
    spec = case['model']
    m = models.build(spec)
    try:
        value = m.realize(case['value'])
    except Exception:
        ctx.count('value_not_constructible')
        return
    shared = bool(case.get('share')) and share_in(value)
    if case.get('share_item', True) and proj.share_index_item(value, m):
        shared = True
        ctx.count('index_item_shared_with_attribute')
    if case.get('intern', True):
        value, n_interned = proj.intern_leaves(value, m)
        if n_interned:
            ctx.count('date_path_or_stringlike_leaf_object_used_twice')
    try:
        projection = proj.Projector(m).project(value)
        tree = to_pt(projection)
    except (proj.Ambiguous, ValueError):
        ctx.count('projection_ambiguous')
        return
    ref = refsem.Ref(m)
    try:
        rv = ref.load(tree)
        ok = strict_eq(rv, value)
        why = 'reference value differs'
    except refsem.Reject as r:
        ok, why = False, r.reason
    except refsem.Unsupported:
        ok, why = False, 'unsupported'
    if not ok:
        ctx.count('discarded_not_unambiguous_' + why.split(':')[0].replace(' ', '_'))
        return
    ctx.count('roundtrip_expected')
    desc = lambda: 'value: %s\n  model: %s' % (canon(value), spec)
    m.reset()
    try:
        text = m.dumps(value)
    except Exception as e:
        ctx.finding('dump', 'raises:' + exc_signature(e),
                    'dumps raised %s: %s\n  %s' % (type(e).__name__, e, desc()))
        return
    fs = features(value, m, set())
    if shared:
        fs.add('shared_object')
    for f in fs:
        ctx.count('feature_' + f)
    if fs:
        ctx.nontriv([spec, case['value'], shared])
        ctx.sample('+'.join(sorted(fs))[:48], {'value': canon(value), 'yaml': text[:300]})
    try:
        back = m.load(text)
    except (yatiml.RecognitionError, yaml.YAMLError) as e:
        ctx.finding('roundtrip', 'load_rejects_dump:' + type(e).__name__,
                    'load(dumps(v)) raised %s: %s\n  text: %r\n  %s'
                    % (type(e).__name__, str(e).strip().replace('\n', ' | ')[:500], text, desc()))
        return
    except Exception as e:
        ctx.finding('roundtrip', 'load_raises:' + exc_signature(e),
                    'load(dumps(v)) raised %s: %s\n  text: %r\n  %s' % (type(e).__name__, e, text, desc()))
        return
    if not strict_eq(back, value):
        ctx.finding('roundtrip', 'value_differs',
                    'load(dumps(v)) = %s\n  text: %r\n  %s' % (canon(back), text, desc()))


# ---------------------------------------------------------------------------
_SL = {'name': 'SL', 'kind': 'strsub'}
_UL = {'name': 'UL', 'kind': 'userstring'}
_W = {'name': 'W', 'kind': 'obj', 'bases': [], 'extra': 'default', 'params': [
    {'name': 's', 'type': 'str'}, {'name': 'n', 'type': 'any', 'default': ['none']},
    {'name': 'u', 'type': None, 'default': ['none']},
    {'name': 'p', 'type': ['opt', 'path'], 'default': ['none']},
    {'name': 'sl', 'type': ['opt', ['ref', 'SL']], 'default': ['none']}]}
POOL_SPEC = {'classes': [_SL, _UL, _W], 'order': ['SL', 'UL', 'W']}
POSITIONS = ['doc', 'item', 'key', 'value', 'attr', 'any_attr', 'untyped_attr', 'extra',
             'extra_key', 'strlike', 'strlike_key', 'path', 'userstring']


def pool_case(s, pos):
    sv = ['str', s]
    W = lambda kw, extra=None: ['obj', 'W', kw, extra or []]
    if pos == 'doc':
        return 'str', sv
    if pos == 'item':
        return ['list', 'str'], ['list', [sv, ['str', 'x'], sv]]
    if pos == 'key':
        return ['dict', 'str', 'int'], ['dict', [[sv, ['int', 1]]]]
    if pos == 'value':
        return ['dict', 'str', 'str'], ['dict', [[['str', 'k'], sv]]]
    if pos == 'attr':
        return ['ref', 'W'], W([['s', sv]])
    if pos == 'any_attr':
        return ['ref', 'W'], W([['s', ['str', 'x']], ['n', ['list', [sv, ['dict', [[sv, sv]]]]]]])
    if pos == 'untyped_attr':
        return ['ref', 'W'], W([['s', ['str', 'x']], ['u', sv]])
    if pos == 'extra':
        return ['ref', 'W'], W([['s', ['str', 'x']]], [['ex', sv]])
    if pos == 'extra_key':
        if s in ('s', 'n', 'u', 'p', 'sl'):
            return None
        return ['ref', 'W'], W([['s', ['str', 'x']]], [[s, ['int', 1]]])
    if pos == 'strlike':
        return ['ref', 'W'], W([['s', ['str', 'x']], ['sl', ['strlike', 'SL', s]]])
    if pos == 'strlike_key':
        return ['dict', ['ref', 'SL'], 'int'], ['dict', [[['strlike', 'SL', s], ['int', 1]]]]
    if pos == 'userstring':
        return ['list', ['ref', 'UL']], ['list', [['strlike', 'UL', s]]]
    if pos == 'path':
        if '\x00' in s:
            return None
        return ['ref', 'W'], W([['s', ['str', 'x']], ['p', ['path', s]]])


def enum_pool(shard, nshards):
    i = 0
    strings = list(dict.fromkeys(gen.HARD_STRINGS + gen.PATHS))
    for s in strings:
        for pos in POSITIONS:
            pc = pool_case(s, pos)
            if pc is None:
                continue
            if i % nshards == shard:
                spec = dict(POOL_SPEC, doc_type=pc[0])
                yield {'model': spec, 'value': pc[1], 'share': False}
            i += 1


def _base_phases(tier):
    quick = tier != 'thorough'
    return [
        EnumPhase('adversarial_string_pool_x_positions', enum_pool,
                  'every string of the adversarial pool (%d strings) at each of %d positions'
                  % (len(set(gen.HARD_STRINGS + gen.PATHS)), len(POSITIONS))),
        HypPhase('models_x_values', cases(), 300 if quick else 5000),
        HypPhase('lookalike_defaults', lookalike_cases(), 40 if quick else 600),
    ]


def phases(tier):
    ph = _base_phases(tier)
    if tier == 'thorough':
        from yv import fuzzphase
        ph.append(fuzzphase.struct_fuzz_phase('C05', 10000))
    return ph
