"""C11 - load and dump functions are stateless, isolated, and leave PyYAML untouched.

Model-based testing over call histories (Hypothesis RuleBasedStateMachine).
Oracles: (a) fresh-process differential - every call in the history must have
exactly the outcome the same call has on freshly built classes and functions
in a pristine process; (b) invariants after every step: PyYAML's and yatiml's
class-level registries, yaml.safe_load / yaml.safe_dump on a probe set and
vars() of every user class are unchanged (baseline recorded in the pristine
process *before* yatiml was imported); (c) batches of calls run in threads
under a scheduler the harness owns - every thread's outcome equals its fresh
outcome.
"""
import copy
import json
import os

import yaml
from hypothesis import strategies as st
from hypothesis.stateful import RuleBasedStateMachine, invariant, precondition, rule

import yatiml

from yv import c11world as W
from yv import models
from yv.common import Harness, canon
from yv.sched import Deadlock, Sched

ROOT = os.path.dirname(os.path.dirname(os.path.dirname(os.path.abspath(__file__))))

ID = 'C11'
RULE = ('A Hypothesis rule-based state machine draws histories of up to 25 '
        '(quick) / 40 (thorough) steps: create a load function (4 models that '
        'share class names A/B with different signatures x 4 document types '
        'each), create a dumps/dumps_json function, call a load function on '
        'one of 24 documents (valid, invalid, tagged with classes registered '
        'elsewhere, aliased, cyclic, unparseable), call a dump function on a '
        'value of its own or of another model (same-named foreign class), '
        'probe PyYAML, or run a batch of 2-3 calls in threads under a '
        'generated schedule of (thread, quantum) pairs at Python-line '
        'granularity. Non-trivial: >=2 functions over overlapping class names '
        'and a failed call before a successful one, or a batch with >=10 '
        'context switches inside yatiml/yaml code; distinct = distinct '
        'histories')
ASSUMPTIONS = [
    'schedules are interleavings of Python lines under the GIL, enumerated by '
    'a scheduler the harness owns; native-level races and free-threaded '
    'builds are out of reach',
    'the fresh-process oracle runs the same code under test in a new '
    'interpreter (forked child per call), so it detects dependence on '
    'history, not absolute wrongness (that is C01-C08)',
]
BUDGET_S = {'quick': 240, 'thorough': 2400}

_oracle = W.Oracle()
_baseline = None


def baseline():
    global _baseline
    if _baseline is None:
        _baseline = _oracle.ask(['baseline'])
    return _baseline


def yatiml_extra_tables():
    import yatiml.loader
    import yatiml.dumper
    return [('yatiml.loader.Loader', yatiml.loader.Loader),
            ('yatiml.dumper.Dumper', yatiml.dumper.Dumper)]


_yatiml_tables0 = None


def snap_vars(cls):
    """Identity of every class attribute, and the content of plain containers
    (a dict such as _yatiml_defaults can be changed without being replaced)."""
    out = {}
    for k, v in vars(cls).items():
        plain = isinstance(v, (dict, list, set, tuple, str, int, float, bool, type(None)))
        out[k] = (id(v), repr(v) if plain else None)
    return out


class World:
    """Executes history steps; reports violations through ctx.finding."""

    def __init__(self, ctx):
        global _yatiml_tables0
        self.ctx = ctx
        self.funcs = {}
        self.models = {}
        self.class_vars = {}
        self.history = []
        self.failed_before_success = False
        self.seen_fail = False
        self.switches = 0
        if _yatiml_tables0 is None:
            _yatiml_tables0 = json.dumps(W.table_snapshot(yaml, yatiml_extra_tables()),
                                         sort_keys=True)

    def model(self, mi):
        if mi not in self.models:
            m = models.Model(dict(W.MODELS[mi], doc_type='any'))
            self.models[mi] = m
            for n, c in m.classes.items():
                self.class_vars[(mi, n)] = (c, snap_vars(c))
        return self.models[mi]

    def describe(self):
        return 'history: %s' % json.dumps(self.history)

    # -- steps -----------------------------------------------------------------
    def step(self, st_):
        self.history.append(st_)
        self.ctx.evaluations += 1
        self.ctx.current_case = {'history': copy.deepcopy(self.history)}
        k = st_[0]
        self.ctx.count('step_' + k)
        if k == 'make_load':
            _, fid, mi, ti = st_
            if mi == W.PARTIAL:
                fn = W.partial_load_function(self.model(W.PARTIAL_OF), ti)
            else:
                m = self.model(mi)
                fn = yatiml.load_function(m.ty(W.DOC_TYPES[mi][ti]), *m.registered)
            self.funcs[fid] = ('load', mi, ti, fn)
        elif k == 'make_dumps':
            _, fid, mi, dk = st_
            m = self.model(mi)
            fn = (yatiml.dumps_function if dk == 'yaml' else yatiml.dumps_json_function)(*m.registered)
            self.funcs[fid] = ('dump', mi, dk, fn)
        elif k in ('load', 'dump'):
            call = self.prepare(st_)
            if call is None:
                self.history.pop()
                return
            via_path = k == 'load' and len(st_) > 3
            fds0 = _count_fds() if via_path else 0
            got = W.outcome(call[1])
            if via_path:
                fds1 = _count_fds()
                self.ctx.count('load_from_path')
                if fds1 > fds0:
                    self.ctx.finding('resources', 'file_left_open_after_load_from_path',
                                     'after %s returned (%s) the process has %d more open file '
                                     'descriptor(s) than before the call\n  %s'
                                     % (st_, got[0], fds1 - fds0, self.describe()))
            self.compare(st_, call[0], got)
        elif k == 'probe':
            self.check_globals(force_probe=True)
        elif k == 'batch':
            calls = [self.prepare(c) for c in st_[1]]
            if any(c is None for c in calls) or len(calls) < 2:
                self.history.pop()
                return
            s = Sched(len(calls), st_[2], **({'packages': tuple(st_[3])} if len(st_) > 3 else {}))
            try:
                res = s.run([c[1] for c in calls])
            except Deadlock as e:
                raise Harness('scheduler deadlock: %s' % e)
            self.switches = max(self.switches, s.switches)
            self.ctx.count('batch_switches_ge_10' if s.switches >= 10 else 'batch_switches_lt_10')
            for c, (q, _), r in zip(st_[1], calls, res):
                got = ['ok', r[1]] if r[0] == 'ok' else ['err', W.classify(r[1])]
                self.compare(c, q, got, in_batch=True)
        self.check_globals()

    def prepare(self, st_):
        """-> (oracle query, thunk) or None if the step refers to nothing."""
        k = st_[0]
        f = self.funcs.get(st_[1])
        if f is None or f[0] != k:
            return None
        if k == 'load':
            _, mi, ti, fn = f
            di = st_[2]
            if len(st_) > 3:
                import pathlib
                d = os.path.join(ROOT, '.scratch', 'c11_%d' % os.getpid())
                os.makedirs(d, exist_ok=True)
                path = os.path.join(d, 'doc_%d.yaml' % di)
                try:
                    with open(path, 'wb') as f:
                        f.write(W.DOCS[di].encode('utf-8'))
                except UnicodeEncodeError:
                    return None
                return (['load', mi, ti, di], lambda: canon(fn(pathlib.Path(path))))
            return (['load', mi, ti, di], lambda: canon(fn(W.DOCS[di])))
        _, mi, dk, fn = f
        vm, vi, oi = st_[2], st_[3], st_[4]
        value = W.make_value(self.model(vm), W.VALUES[vm][vi])
        kw = W.JSON_OPTS[oi] if dk == 'json' else {}
        return (['dump', mi, dk, vm, vi, oi if dk == 'json' else 0], lambda: fn(value, **kw))

    def compare(self, st_, query, got, in_batch=False):
        want = _oracle.ask(query)
        got = json.loads(json.dumps(got, default=repr))
        if got[0] == 'err':
            self.seen_fail = True
        elif self.seen_fail:
            self.failed_before_success = True
        if got != want:
            self.ctx.finding(
                'fresh_process', '%s%s:%s_vs_fresh_%s' % (
                    'threaded_' if in_batch else '', st_[0], got[0], want[0]),
                'call %s %s\n  in this history it gives: %s\n  on fresh classes and functions in a new process: %s\n  %s'
                % (st_, '(inside a scheduled batch)' if in_batch else '', got, want, self.describe()))

    def check_globals(self, force_probe=False):
        base = baseline()
        now = W.table_snapshot(yaml)
        for name, tab in base['tables'].items():
            if now.get(name) != tab:
                diff = [k for k in set(tab) | set(now.get(name, {}))
                        if tab.get(k) != now.get(name, {}).get(k)]
                self.ctx.finding('pyyaml_tables', 'table_changed:' + name,
                                 '%s differs from its value in a process that never imported yatiml; entries: %s\n  %s'
                                 % (name, diff[:6], self.describe()))
                return
        yt = json.dumps(W.table_snapshot(yaml, yatiml_extra_tables()), sort_keys=True)
        if yt != json.dumps(base['yatiml_tables'], sort_keys=True):
            self.ctx.finding('yatiml_tables', 'base_class_table_changed',
                             'a class-level table of yatiml.loader.Loader / yatiml.dumper.Dumper (or PyYAML) changed during the history\n  %s'
                             % self.describe())
            return
        import yatiml.loader
        if yatiml.loader.Loader._registered_classes is not None or \
                yatiml.loader.Loader._additional_classes is not None:
            self.ctx.finding('yatiml_tables', 'base_loader_registry_set',
                             'yatiml.loader.Loader._registered_classes/_additional_classes was set on the shared base class\n  %s'
                             % self.describe())
            return
        for (mi, n), (c, v0) in self.class_vars.items():
            v1 = snap_vars(c)
            if v1 != v0:
                self.ctx.finding('user_classes', 'class_modified',
                                 'vars(%s) of model %d changed: %s\n  %s'
                                 % (n, mi, sorted(set(v0) ^ set(v1)) or 'values', self.describe()))
                return
        if force_probe or len(self.history) % 3 == 0:
            p = W.probe(yaml)
            if p != base['probe']:
                bad = [(d, a, b) for d, a, b in zip(W.PROBE_LOAD + [repr(x) for x in W.PROBE_DUMP],
                                                     p['load'] + p['dump'],
                                                     base['probe']['load'] + base['probe']['dump']) if a != b]
                self.ctx.finding('pyyaml_behaviour', 'safe_load_or_safe_dump_changed',
                                 'yaml.safe_load/safe_dump answers differ from a process that never imported yatiml: %s\n  %s'
                                 % (bad[:4], self.describe()))

    def nontrivial(self):
        names = set()
        overlapping = False
        for f in self.funcs.values():
            for c in W.MODELS[W.PARTIAL_OF if f[1] == W.PARTIAL else f[1]]['classes']:
                if c['name'] in names:
                    overlapping = True
                names.add(c['name'])
        mis = {f[1] for f in self.funcs.values()}
        return (len(self.funcs) >= 2 and len(mis) >= 2 and self.failed_before_success) or self.switches >= 10


def _count_fds():
    try:
        return len(os.listdir('/proc/self/fd'))
    except OSError:
        return 0


# ---------------------------------------------------------------------------
FIDS = list(range(6))
# any document; empty / comment-only / null documents more often (they share no
# node with anything - unless an implementation makes them)
DOC_INDEX = st.one_of(st.integers(0, len(W.DOCS) - 1),
                      st.sampled_from([i for i, d in enumerate(W.DOCS) if d.strip() in ('', '~', '# only a comment')]))
call_strategy = st.one_of(
    st.tuples(st.just('load'), st.sampled_from(FIDS), st.integers(0, len(W.DOCS) - 1)).map(list),
    st.builds(lambda f, vm, vi, oi: ['dump', f, vm, vi % len(W.VALUES[vm]), oi],
              st.sampled_from(FIDS), st.integers(0, 3), st.integers(0, 4), st.integers(0, 2)))


def make_machine(ctx):
    class Machine(RuleBasedStateMachine):
        def __init__(self):
            super().__init__()
            self.w = World(ctx)

        @rule(fid=st.sampled_from(FIDS), mi=st.sampled_from([0, 1, 2, 2, 3, 4, 4]), ti=st.integers(0, 3))
        def make_load(self, fid, mi, ti):
            self.w.step(['make_load', fid, mi, ti])

        @rule(fid=st.sampled_from(FIDS), mi=st.integers(0, 3), dk=st.sampled_from(['yaml', 'json']))
        def make_dumps(self, fid, mi, dk):
            self.w.step(['make_dumps', fid, mi, dk])

        @precondition(lambda self: any(f[0] == 'load' for f in self.w.funcs.values()))
        @rule(data=st.data(), di=DOC_INDEX)
        def call_load(self, data, di):
            fids = sorted(k for k, f in self.w.funcs.items() if f[0] == 'load')
            self.w.step(['load', data.draw(st.sampled_from(fids)), di])

        @precondition(lambda self: any(f[0] == 'dump' for f in self.w.funcs.values()))
        @rule(data=st.data(), vm=st.integers(0, 3), vi=st.integers(0, 4), oi=st.integers(0, 2),
              own=st.booleans())
        def call_dump(self, data, vm, vi, oi, own):
            fids = sorted(k for k, f in self.w.funcs.items() if f[0] == 'dump')
            fid = data.draw(st.sampled_from(fids))
            if own:
                vm = self.w.funcs[fid][1]
            self.w.step(['dump', fid, vm, vi % len(W.VALUES[vm]), oi])

        @precondition(lambda self: any(f[0] == 'load' for f in self.w.funcs.values()))
        @rule(data=st.data(), di=DOC_INDEX)
        def call_load_again(self, data, di):
            # the same document from a file: same result, and the call must not
            # keep the file open (a descriptor held between calls is state)
            fids = sorted(k for k, f in self.w.funcs.items() if f[0] == 'load')
            self.w.step(['load', data.draw(st.sampled_from(fids)), di, 'path'])

        @precondition(lambda self: sum(1 for f in self.w.funcs.values() if f[0] == 'load') >= 2)
        @rule(di=st.sampled_from([i for i, d in enumerate(W.DOCS)
                                  if d.strip() in ('', '~', '# only a comment')]))
        def same_small_document_to_every_load_function(self, di):
            # one function's call must not change what the next one sees
            for fid in sorted(k for k, f in self.w.funcs.items() if f[0] == 'load'):
                self.w.step(['load', fid, di])

        @precondition(lambda self: len(self.w.history) % 7 == 6)
        @rule()
        def probe(self):
            self.w.step(['probe'])

        @precondition(lambda self: len(self.w.funcs) >= 1)
        @rule(data=st.data(), n=st.integers(2, 3),
              schedule=st.lists(st.tuples(st.integers(0, 2), st.integers(1, 40)), min_size=5, max_size=60))
        def batch(self, data, n, schedule):
            calls = []
            for _ in range(n):
                fid = data.draw(st.sampled_from(sorted(self.w.funcs)))
                f = self.w.funcs[fid]
                if f[0] == 'load':
                    calls.append(['load', fid, data.draw(st.integers(0, len(W.DOCS) - 1))])
                else:
                    vm = f[1] if data.draw(st.booleans()) else data.draw(st.integers(0, 3))
                    calls.append(['dump', fid, vm, data.draw(st.integers(0, len(W.VALUES[vm]) - 1)),
                                  data.draw(st.integers(0, 2))])
            self.w.step(['batch', calls, [list(x) for x in schedule]])

        def teardown(self):
            if self.w.nontrivial():
                ctx.nontriv(self.w.history)
                ctx.sample('history', {'steps': self.w.history[:12], 'length': len(self.w.history),
                                       'max_switches_in_batch': self.w.switches})
            ctx.count('histories')
    return Machine


def check(case, ctx):
    """Plain replay of a stored history (no Hypothesis)."""
    w = World(ctx)
    for st_ in case['history']:
        w.step(copy.deepcopy(st_))
    if case.get('sweep'):
        ctx.count('single_preemption_schedule')
        if w.switches >= 1:
            ctx.nontriv(case['history'])
        return
    if w.nontrivial():
        ctx.nontriv(case['history'])


# -- one preemption at every point ---------------------------------------------
# Two calls of the SAME function in two threads; thread 0 is preempted after k
# yield points (Python lines inside yatiml/ and yaml/), thread 1 then runs to
# completion, thread 0 finishes. k sweeps over every yield point of the pair,
# so every place where a call parks per-call state on an object shared by all
# calls of the function (constructors, representers, the function itself) is
# hit, deterministically. Each call's result must be the fresh-process result.
SWEEPS = [
    # (make step, call of thread 0, call of thread 1)
    (['make_dumps', 0, 0, 'yaml'], ['dump', 0, 0, 3, 0], ['dump', 0, 0, 1, 0]),
    (['make_dumps', 0, 0, 'yaml'], ['dump', 0, 0, 1, 0], ['dump', 0, 0, 3, 0]),
    (['make_dumps', 0, 2, 'yaml'], ['dump', 0, 2, 3, 0], ['dump', 0, 2, 1, 0]),
    (['make_dumps', 0, 2, 'json'], ['dump', 0, 2, 1, 1], ['dump', 0, 2, 0, 0]),
    (['make_dumps', 0, 1, 'yaml'], ['dump', 0, 1, 1, 0], ['dump', 0, 1, 3, 0]),
    (['make_load', 0, 0, 2], ['load', 0, 4], ['load', 0, 23]),
    (['make_load', 0, 2, 1], ['load', 0, 24], ['load', 0, 1]),
    (['make_load', 0, 2, 3], ['load', 0, 25], ['load', 0, 8]),
    (['make_load', 0, 1, 1], ['load', 0, 16], ['load', 0, 9]),
]


def enum_preemptions(everywhere):
    def gen_(shard, nshards):
        i = 0
        for pk in ((['/yatiml/'],) + ((['/yatiml/', '/yaml/'],) if everywhere else ())):
            for mk, c0, c1 in SWEEPS:
                # number of yield points of the pair when run one after the other
                w = World(_NullCtx())
                w.step(copy.deepcopy(mk))
                calls = [w.prepare(c0), w.prepare(c1)]
                s = Sched(2, [(0, 10 ** 9)], packages=tuple(pk))
                s.run([c[1] for c in calls])
                total = s.steps
                for k in range(1, total + 1):
                    if i % nshards == shard:
                        yield {'history': [mk, ['batch', [c0, c1], [[0, k], [1, 10 ** 9]], pk]],
                               'sweep': True}
                    i += 1
    return gen_


class _NullCtx:
    evaluations = 0
    current_case = None

    def count(self, *a, **k):
        pass

    def finding(self, *a, **k):
        pass


def phases(tier):
    from yv.runner import EnumPhase, StatefulPhase
    quick = tier != 'thorough'
    return [StatefulPhase('call_histories', make_machine, 25 if quick else 300,
                          25 if quick else 40),
            EnumPhase('single_preemption_sweep', enum_preemptions(not quick),
                      '%d pairs of calls of one function (dumps of values with an object '
                      'referenced twice, JSON dumps, loads of valid and invalid documents) in two '
                      'threads; thread 0 preempted after k yield points, for every k; yield points '
                      '= Python lines inside yatiml/%s'
                      % (len(SWEEPS), '' if quick else ', and a second sweep over lines inside yatiml/ and yaml/'))]


def teardown():
    _oracle.close()
    import glob
    import shutil
    for d in glob.glob(os.path.join(ROOT, '.scratch', 'c11_*')):
        shutil.rmtree(d, ignore_errors=True)
