"""C09 - plain scalars are typed by YAML 1.2 rules for booleans and floats.

Domain: strings (exhaustive up to a length bound over two alphabets, every
accepted spelling extended by one character, generated longer strings).
Oracle: a hand-written, regex-free recogniser of the YAML 1.2 core float and
bool spellings, checked (a) on the resolver of a yatiml Loader instance and
(b) end-to-end through load_function() for strings that are a complete plain
scalar according to PyYAML's scanner.
"""
import itertools
import math

import yaml
from hypothesis import strategies as st

import yatiml
from yatiml.loader import Loader

from yv.common import exc_signature
from yv.runner import EnumPhase, HypPhase

ID = 'C09'
RULE = ('strings enumerated exhaustively over the number alphabet '
        '"017.eE+-_:xbo" (length<=5 quick / <=6 thorough) and the keyword '
        'alphabet (letters of true/false/yes/no/on/off/null/inf/nan in both '
        'cases plus ". ~", length<=3 quick / <=4 thorough), every accepted '
        'spelling and every YAML 1.1 spelling extended/mutated by one '
        'character, plus Hypothesis-generated longer strings; a case is '
        'non-trivial when the string has length>=2 and its first character '
        'has a float or bool resolver bucket, or when its YAML 1.1 and YAML '
        '1.2 classification differ; distinct = distinct strings')
ASSUMPTIONS = [
    'PyYAML scanner/composer trusted to say whether a string is one complete '
    'plain scalar; PyYAML int/null/timestamp typing is delegated by the '
    'property and taken from yaml.SafeLoader\'s own table',
    'exhaustive only up to the stated length bound; longer strings sampled '
    '(the automata-equivalence argument of the property is another technique)',
    'a signed .nan (+.nan/-.nan) is not classified by the property; either '
    'outcome is accepted',
]
BUDGET_S = {'quick': 200, 'thorough': 1500}

FLOAT = 'tag:yaml.org,2002:float'
BOOL = 'tag:yaml.org,2002:bool'
STR = 'tag:yaml.org,2002:str'
DIG = '0123456789'
BOOLS = ('true', 'True', 'TRUE', 'false', 'False', 'FALSE')


def spec_float(s):
    """'float' | 'nan' | 'inf' | None | 'unspecified' (signed nan)."""
    i = 0
    if s[:1] in ('+', '-'):
        i = 1
    body = s[i:]
    if body in ('.inf', '.Inf', '.INF'):
        return 'inf'
    if body in ('.nan', '.NaN', '.NAN'):
        return 'nan' if i == 0 else 'unspecified'
    n = len(body)
    j = 0
    while j < n and body[j] in DIG:
        j += 1
    int_digits = j
    has_dot = False
    frac_digits = 0
    if j < n and body[j] == '.':
        has_dot = True
        j += 1
        k = j
        while j < n and body[j] in DIG:
            j += 1
        frac_digits = j - k
    if int_digits == 0 and frac_digits == 0:
        return None
    has_exp = False
    if j < n and body[j] in 'eE':
        # yatiml / YAML 1.2: exponent needs digits; "1." may take an exponent
        j += 1
        if j < n and body[j] in '+-':
            j += 1
        k = j
        while j < n and body[j] in DIG:
            j += 1
        if j == k:
            return None
        has_exp = True
    if j != n:
        return None
    if not has_dot and not has_exp:
        return None
    return 'float'


def spec_bool(s):
    return s in BOOLS


_SAFE = yaml.SafeLoader.yaml_implicit_resolvers


def pyyaml_other(s):
    """Tag by PyYAML's own table with the float and bool entries removed."""
    res = _SAFE.get(s[0] if s else '', [])
    for tag, rx in list(res) + list(_SAFE.get(None, [])):
        if tag in (FLOAT, BOOL):
            continue
        if rx.match(s):
            return tag
    return STR


def yaml11(s):
    res = _SAFE.get(s[0] if s else '', [])
    for tag, rx in list(res) + list(_SAFE.get(None, [])):
        if rx.match(s):
            return tag
    return STR


_loader = None
_load = None
_float_first = None


def _setup():
    global _loader, _load, _float_first
    if _loader is None:
        _loader = Loader('')
        _load = yatiml.load_function()
        _float_first = set()
        for first, lst in _SAFE.items():
            if any(t in (FLOAT, BOOL) for t, _ in lst):
                _float_first.add(first)
        _float_first |= set('tTfF+-.0123456789')


def is_plain_scalar(s):
    try:
        node = yaml.compose(s, Loader=yaml.BaseLoader)
    except yaml.YAMLError:
        return False
    except Exception:
        return False
    return (isinstance(node, yaml.ScalarNode) and node.value == s
            and node.style is None)


_polluted = False


def pollute_safe_loader():
    """What many programs do to make PyYAML read 1e5 as a float: register one
    more float resolver on yaml.SafeLoader (process-wide). yatiml's typing of
    plain scalars must not depend on it."""
    global _polluted, _loader
    if _polluted:
        return
    import re
    yaml.SafeLoader.add_implicit_resolver(
        'tag:yaml.org,2002:float',
        re.compile('''^(?:
         [-+]?(?:[0-9][0-9_]*)\\.[0-9_]*(?:[eE][-+]?[0-9]+)?
        |[-+]?(?:[0-9][0-9_]*)(?:[eE][-+]?[0-9]+)
        |\\.[0-9_]+(?:[eE][-+][0-9]+)?
        |[-+]?[0-9][0-9_]*(?::[0-5]?[0-9])+\\.[0-9_]*
        |[-+]?\\.(?:inf|Inf|INF)
        |\\.(?:nan|NaN|NAN))$''', re.X),
        list('-+0123456789.'))
    _polluted = True
    _loader = Loader('')      # a Loader created after the registration


def check(case, ctx):
    _setup()
    if case.get('nonstock'):
        pollute_safe_loader()
        ctx.count('nonstock_base_table')
    s = case['s']
    if s.endswith('\n'):
        # not a possible plain scalar value; '$' in resolver regexes (PyYAML's
        # own included) matches before a trailing newline
        ctx.count('trailing_newline_skipped')
        return
    sf = spec_float(s)
    sb = spec_bool(s)
    got = _loader.resolve(yaml.ScalarNode, s, (True, False))
    if sf == 'unspecified':
        # signed .nan: the core schema does not list it, so either typing is
        # accepted - but what it resolves to must be what is constructed
        ctx.count('signed_nan_unspecified')
        if is_plain_scalar(s):
            try:
                v = _load(s)
            except Exception as e:
                ctx.finding('e2e', 'resolved_but_not_constructible:' + type(e).__name__,
                            'load_function()(%r) raised %r although the resolver types it as %s'
                            % (s, e, got))
                return
            ok = (type(v) is float and math.isnan(v)) if got == FLOAT else (type(v) is str and v == s)
            if not ok:
                ctx.finding('e2e', 'resolution_and_construction_disagree',
                            'load_function()(%r) returned %r, the resolver says %s' % (s, v, got))
        return
    if sb:
        want = BOOL
    elif sf:
        want = FLOAT
    else:
        want = pyyaml_other(s)
    y11 = yaml11(s)
    cls = ('float' if want == FLOAT else 'bool' if want == BOOL
           else want.rsplit(':', 1)[1])
    ctx.count('spec_' + cls)
    if (len(s) >= 2 and s[0] in _float_first) or y11 != want:
        ctx.nontriv(s)
        if y11 != want:
            ctx.count('yaml11_differs')
            ctx.sample('yaml11_differs', {'s': s, 'yaml11': y11, 'spec': want})
        elif want in (FLOAT, BOOL):
            ctx.sample('accepted_' + cls, {'s': s, 'spec': want})
    if got != want:
        kind = ('spec=%s resolved=%s' % (want.rsplit(':', 1)[1],
                                         got.rsplit(':', 1)[1]))
        ctx.finding('resolve', kind,
                    'string %r: yatiml Loader resolves it to %s, YAML 1.2 '
                    'rules (bool/float) + PyYAML (others) give %s'
                    % (s, got, want))
        return
    # end to end
    if not is_plain_scalar(s):
        ctx.count('not_a_plain_scalar')
        return
    ctx.count('e2e')
    try:
        v = _load(s)
    except Exception as e:
        if want in (FLOAT, BOOL):
            ctx.finding('e2e', 'raises:' + exc_signature(e),
                        'load_function()(%r) raised %r although it is a '
                        'YAML 1.2 %s' % (s, e, cls))
        else:
            # int/null/timestamp/str construction is PyYAML's (C08 covers
            # exception types); only count it here
            ctx.count('e2e_other_type_raises_' + type(e).__name__)
        return
    if want == FLOAT:
        if sf == 'nan':
            ok = type(v) is float and math.isnan(v)
        elif sf == 'inf':
            ok = type(v) is float and v == (-math.inf if s[0] == '-'
                                            else math.inf)
        else:
            ref = float(s)
            ok = type(v) is float and (v == ref or (
                math.isnan(ref) and math.isnan(v)))
        if not ok:
            ctx.finding('e2e', 'float_value',
                        'load_function()(%r) returned %r, expected float %r'
                        % (s, v, 'nan/inf' if sf != 'float' else float(s)))
    elif want == BOOL:
        if v is not (s.lower() == 'true'):
            ctx.finding('e2e', 'bool_value',
                        'load_function()(%r) returned %r' % (s, v))
    elif isinstance(v, (float, bool)):
        if True:
            ctx.finding('e2e', 'nonspec_loaded_as_' + type(v).__name__,
                        'load_function()(%r) returned %r (%s) although it is '
                        'neither a YAML 1.2 float nor bool'
                        % (s, v, type(v).__name__))


    # the same spelling quoted and plain inside one document: typing must not
    # depend on what else the document contains
    if (want != STR or y11 != want) and all(ch not in s for ch in ',[]{}#&*!|>%@`"\'\\ \t\n'):
        q = '"' + s + '"'
        for doc, idx in (('[%s, %s]' % (q, s), 1), ('[%s, %s]' % (s, q), 0)):
            try:
                node = yaml.compose(doc, Loader=yaml.BaseLoader)
                if not (isinstance(node, yaml.SequenceNode) and len(node.value) == 2
                        and all(n.value == s for n in node.value)):
                    continue
                got2 = _load(doc)
            except Exception as e:
                ctx.count('context_doc_raises_' + type(e).__name__)
                continue
            ctx.count('context_docs')
            plain_v, quoted_v = got2[idx], got2[1 - idx]
            if type(quoted_v) is not str or quoted_v != s:
                ctx.finding('context', 'quoted_twin_not_str',
                            'in %r the quoted scalar loads as %r' % (doc, quoted_v))
                return
            same = type(plain_v) is type(v) and (plain_v == v or (
                isinstance(v, float) and math.isnan(v) and math.isnan(plain_v)))
            if not same:
                ctx.finding('context', 'plain_scalar_typed_differently_in_context',
                            'alone %r loads as %r, in %r it loads as %r' % (s, v, doc, plain_v))
                return


        # the same plain scalar as the only node of a document with explicit
        # markers / directives: the typing rules are those of the property
        # whatever the document declares about itself
        for pre, post in (('--- ', ''), ('---\n', '\n...\n'), ('%YAML 1.1\n---\n', '\n'),
                          ('%YAML 1.2\n--- ', '\n'),
                          ('%TAG !e! tag:example.com,2000:\n---\n', '\n')):
            doc = pre + s + post
            try:
                node = yaml.compose(doc, Loader=yaml.BaseLoader)
                if not (isinstance(node, yaml.ScalarNode) and node.value == s):
                    continue
                v3 = _load(doc)
            except Exception as e:
                ctx.count('directive_doc_raises_' + type(e).__name__)
                continue
            ctx.count('directive_docs')
            same = type(v3) is type(v) and (v3 == v or (
                isinstance(v, float) and math.isnan(v) and math.isnan(v3)))
            if not same:
                ctx.finding('context', 'plain_scalar_typed_differently_after_directive',
                            'alone %r loads as %r, as %r it loads as %r' % (s, v, doc, v3))
                return


# ---------------------------------------------------------------------
SIGMA = '017.eE+-_:xbo'
KW = sorted(set('truefalsyno' + 'TRUEFALSYNO' + 'inaINA' + 'ofOF' + 'ulUL'
                + '.~'))
KEYWORDS = ['true', 'false', 'yes', 'no', 'on', 'off', 'null', 'y', 'n',
            '.inf', '.nan', '~', 'inf', 'nan']
EXT_CHARS = ('0123456789.eE+-_:xbo~#!&*%@`,[]{}"\' \t'
             'tTrRuUfFaAlLsSyYnNoOiIé١')


def enum_words(alphabet, maxlen):
    def gen(shard, nshards):
        i = 0
        for n in range(0, maxlen + 1):
            for tup in itertools.product(alphabet, repeat=n):
                if i % nshards == shard:
                    yield {'s': ''.join(tup)}
                i += 1
    return gen


def accepted_words():
    """A finite set of accepted (and YAML 1.1) spellings to extend."""
    out = set(BOOLS)
    for sign in ('', '+', '-'):
        for body in ('1.5', '1.', '.5', '1e5', '1E5', '1e+5', '1e-5', '1.e5',
                     '1.5e5', '.5e-5', '10.25E+10', '.inf', '.Inf', '.INF',
                     '0.0', '00.5', '1.0e00'):
            out.add(sign + body)
    out |= {'.nan', '.NaN', '.NAN'}
    # YAML 1.1-only spellings and near misses named by the property
    out |= {'yes', 'no', 'on', 'off', 'Yes', 'NO', 'On', 'OFF', 'y', 'n', 'Y',
            'N', '1_000.5', '1:30.5', '1_0e5', '1.2.3', 'trueish', '190:20:30',
            '1e', '1e+', '.e5', 'e5', '.', '+.', '-', '+', '.Nan', '.nAn',
            '.iNf', 'tRue', 'fALSE', 'null', '~', '0x1F', '0o17', '017',
            '1_000', '2001-01-01', '0b1', '1e5.', '1.5.e5', '.inf.', 'inf',
            'nan', 'Inf', 'NaN', 'infinity', '-inf', '+nan', '1e5e5',
            '1.5E', '++1.5', '+-1.5', '--.5', '1..5', '1.5e5.5'}
    for w in list(KEYWORDS):
        if len(w) <= 5:
            for bits in itertools.product((0, 1), repeat=len(w)):
                out.add(''.join(c.upper() if b else c.lower()
                                for c, b in zip(w, bits)))
    return sorted(out)


def enum_extensions(shard, nshards):
    i = 0
    seen = set()
    for w in accepted_words():
        cands = [w]
        for c in EXT_CHARS:
            for pos in range(len(w) + 1):
                cands.append(w[:pos] + c + w[pos:])
            for pos in range(len(w)):
                cands.append(w[:pos] + c + w[pos + 1:])
        for pos in range(len(w)):
            cands.append(w[:pos] + w[pos + 1:])
        cands.append(w + w)
        for s in cands:
            if s in seen:
                continue
            seen.add(s)
            if i % nshards == shard:
                yield {'s': s}
            i += 1


def enum_nonstock(shard, nshards):
    for i, w in enumerate(accepted_words()):
        if i % nshards == shard:
            yield {'s': w, 'nonstock': True}


def number_like():
    digits = st.text(alphabet='0123456789', min_size=0, max_size=12)
    sign = st.sampled_from(['', '', '+', '-'])
    exp = st.one_of(st.just(''), st.builds(
        lambda e, s, d: e + s + d, st.sampled_from('eE'), sign, digits))
    dot = st.sampled_from(['', '.', '.', '..', ':', '_'])
    tail = st.one_of(st.just(''), st.just(''), st.text(
        alphabet=SIGMA + 'infaINFA ', max_size=3))
    num = st.builds(lambda a, b, c, d, e, f: a + b + c + d + e + f,
                    sign, digits, dot, digits, exp, tail)
    kw = st.builds(lambda k, t: k + t, st.sampled_from(
        KEYWORDS + list(BOOLS) + ['.INF', '.NaN', '-.inf', '+.Inf']), tail)
    # no length limit: digit strings of 30-300 characters (more digits than a
    # double holds; longer than any fixed-size buffer or cut-off)
    ldigits = st.builds(lambda d, n: (d * n)[:n], st.text(alphabet='0123456789', min_size=1, max_size=7),
                        st.sampled_from([30, 63, 64, 65, 66, 100, 128, 129, 255, 256, 257, 300]))
    lnum = st.one_of(
        st.builds(lambda a, b, c, e: a + b + '.' + c + e, sign, ldigits, digits, exp),
        st.builds(lambda a, b, c, e: a + b + '.' + c + e, sign, digits, ldigits, exp),
        st.builds(lambda a, b, e, t: a + b + e + t, sign, ldigits, exp, tail),
        st.builds(lambda a, b: a + '.' + b + 'x', digits, ldigits),
        st.builds(lambda k, n: k + ' ' * 0 + 'e' * n, st.sampled_from(['tru', 'fals', '.na']),
                  st.sampled_from([1, 70])))
    return st.one_of(num, num, kw, st.text(max_size=12),
                     st.text(alphabet=SIGMA, min_size=6, max_size=14), lnum)


def phases(tier):
    quick = tier != 'thorough'
    L = 5 if quick else 6
    K = 3 if quick else 4
    return [
        EnumPhase('number_alphabet_len<=%d' % L, enum_words(SIGMA, L),
                  'all %d strings of length <=%d over %r'
                  % (sum(len(SIGMA) ** n for n in range(L + 1)), L, SIGMA)),
        EnumPhase('keyword_alphabet_len<=%d' % K, enum_words(KW, K),
                  'all %d strings of length <=%d over %r'
                  % (sum(len(KW) ** n for n in range(K + 1)), K,
                     ''.join(KW))),
        EnumPhase('one_char_mutations', enum_extensions,
                  'every listed accepted/1.1/near-miss spelling with one '
                  'character inserted, replaced or deleted at every position'),
        HypPhase('generated_longer', number_like().map(lambda s: {'s': s}),
                 400 if quick else 6000),
        # last: changes yaml.SafeLoader for the rest of the process
        EnumPhase('nonstock_base_table', enum_nonstock,
                  'every listed spelling with an additional float resolver registered on '
                  'yaml.SafeLoader before the yatiml Loader is created'),
    ]
