"""C06 - dumps are faithful, tag-free and ordered, and leave the object untouched.

Oracle: a *plain* YAML parser (yaml.safe_load / yaml.parse / yaml.compose_all,
deliberately not yatiml's loader) reads the dumped text; it must be one
document, carry no explicit tag, and equal the documented projection
(yv.proj); the object graph is identical before and after; two dumps are equal.
"""
import yaml
from hypothesis import strategies as st

import yatiml

from yv import gen, models, proj
from yv.common import canon, exc_signature, is_gen_obj
from yv.runner import HypPhase

ID = 'C06'
RULE = ('Hypothesis draws a class model (inheritance, enums, string-likes also '
        'as dict keys, Path, date/datetime, Any/untyped, _yatiml_extra, '
        '_yatiml_attributes, hidden private state, declarative _yatiml_sweeten '
        'hooks incl. default removal with overrides, key renaming, dashes, '
        'added attributes, seq/index-to-map) and a value of its document type '
        'with strings from the hard pool, non-finite floats, big ints, '
        'optionally with one sub-object referenced twice. Non-trivial: the '
        'value has a class instance with >=2 attributes, or extras, a '
        '_yatiml_attributes hook, or a sweeten hook; distinct = distinct '
        '(model, value)')
ASSUMPTIONS = [
    'outputs the documentation leaves open are skipped and counted: default '
    'removal when value and default are of different kinds but compare equal '
    '(1 / 1.0 / True) or are both NaN',
    'the generated classes store constructor arguments unchanged, so the '
    'projection can be computed from the attributes',
]
BUDGET_S = {'quick': 240, 'thorough': 2400}

FEATS = ('hier', 'abstract', 'extra', 'enum', 'strlike', 'any', 'untyped',
         'date', 'path', 'defaults', 'sweeten', 'seasoned',
         'abstract_containers', 'buf', 'multi', 'scalarized')


@st.composite
def cases(draw):
    spec = draw(gen.models(FEATS))
    v = draw(gen.vspec_for(spec, spec['doc_type'], hard=True))
    if v is None:
        # no instantiable class for the document type: dump plain data instead
        spec = dict(spec, doc_type='any')
        v = draw(gen.vspec_for(spec, 'any', hard=True))
    return {'model': spec, 'value': v, 'share': draw(st.integers(0, 5)) == 0,
            'collide': draw(st.integers(0, 3)) == 0,
            'json': draw(st.sampled_from([None, None, 'plain', 'after_failure',
                                          'after_failure_elsewhere'])),
            'indent': draw(st.sampled_from([None, None, 2, 4])),
            'stream': draw(st.booleans()),
            'partial': draw(st.one_of(st.none(), st.integers(0, 3)))}


def snapshot(v, seen=None):
    """Structure incl. identities of containers/objects and order."""
    seen = {} if seen is None else seen
    if id(v) in seen and (is_gen_obj(v) or isinstance(v, (list, dict))):
        return ('ref', id(v))
    if is_gen_obj(v):
        seen[id(v)] = True
        return ('obj', id(v), type(v).__name__,
                tuple((k, snapshot(x, seen)) for k, x in sorted(vars(v).items())
                      if k != '_yatiml_extra'),
                snapshot(getattr(v, '_yatiml_extra', None), seen))
    if isinstance(v, dict):
        seen[id(v)] = True
        return ('dict', id(v), type(v).__name__,
                tuple((snapshot(k, seen), snapshot(x, seen)) for k, x in v.items()))
    if isinstance(v, list):
        seen[id(v)] = True
        return ('list', id(v), tuple(snapshot(x, seen) for x in v))
    return ('leaf', type(v).__name__, repr(v))


def feature(v, m):
    feats = set()

    def go(x):
        if is_gen_obj(x):
            c = m.by[type(x).__name__]
            if len(c.get('params', [])) >= 2:
                feats.add('multi_attr')
            if c.get('extra') and x._yatiml_extra:
                feats.add('extras')
            if c.get('attrs_hook') is not None:
                feats.add('attributes_hook')
            if c.get('hidden'):
                feats.add('hidden_state')
            for cn in [type(x).__name__] + c.get('bases', []):
                if m.by[cn].get('sweeten'):
                    feats.add('sweeten')
            for n in c.get('params', []):
                go(getattr(x, n['name'], None))
            if c.get('extra'):
                go(x._yatiml_extra)
        elif isinstance(x, dict):
            for k, y in x.items():
                go(k)
                go(y)
        elif isinstance(x, list):
            for y in x:
                go(y)
        elif type(x).__name__ in m.by:
            feats.add('enum_or_strlike')
    go(v)
    return feats


def collide_extras(value, m, _state=None):
    """In every third object that takes extras (counted over the walk), add an extra
    attribute named like its first parameter. -> number of objects changed."""
    st_ = _state if _state is not None else {'seen': 0, 'done': 0}
    if is_gen_obj(value):
        c = m.by[type(value).__name__]
        ex = getattr(value, '_yatiml_extra', None)
        ps = [p['name'] for p in c.get('params', [])]
        if c.get('extra') and isinstance(ex, dict) and ps and not c.get('attrs_hook'):
            st_['seen'] += 1
            if st_['seen'] % 3 == 1:
                ex[ps[0]] = 'shadow'
                st_['done'] += 1
        for p in ps:
            collide_extras(getattr(value, p, None), m, st_)
    elif isinstance(value, list):
        for x in value:
            collide_extras(x, m, st_)
    elif isinstance(value, dict):
        for x in value.values():
            collide_extras(x, m, st_)
    return st_['done']


def check(case, ctx):
    spec = case['model']
    m = models.build(spec)
    try:
        value = m.realize(case['value'])
    except Exception:
        ctx.count('value_not_constructible')
        return
    if case.get('share') and isinstance(value, list) and value and \
            (is_gen_obj(value[0]) or isinstance(value[0], (list, dict))):
        value.append(value[0])
        ctx.count('shared_subobject')
    item_shared = proj.share_index_item(value, m)
    if item_shared:
        ctx.count('index_item_shared_with_attribute')
    if case.get('intern', True):
        value, n_interned = proj.intern_leaves(value, m)
        if n_interned:
            ctx.count('date_path_or_stringlike_leaf_object_used_twice')
    collide = bool(case.get('collide')) and collide_extras(value, m)
    if collide:
        # an object built in Python whose extra attributes contain a key that is
        # also a parameter name: which of the two the text shows is not specified,
        # so only purity, determinism, well-formedness and tag-freedom are checked
        ctx.count('extra_key_equal_to_a_parameter_name')
    try:
        want = proj.Projector(m).project(value)
    except proj.Ambiguous:
        ctx.count('projection_ambiguous')
        return
    desc = lambda: 'value: %s\n  model: %s' % (canon(value), spec)
    before = snapshot(value)
    m.reset()
    # a dump function that knows only part of the classes (a registered base
    # class left out) writes the same text before and after another function
    # that knows all of them has been created and used
    if case.get('partial') is not None:
        regnames = {c.__name__ for c in m.registered}
        based = sorted({b for c in spec['classes'] for b in c.get('bases', []) if b in regnames})
        if based:
            drop = based[case['partial'] % len(based)]
            part = yatiml.dumps_function(*[c for c in m.registered if c.__name__ != drop])
            try:
                p1 = part(value)
            except Exception:
                ctx.count('partial_function_cannot_dump_value')
            else:
                full = yatiml.dumps_function(*m.registered)
                try:
                    full(value)
                except Exception:
                    pass
                try:
                    p2 = part(value)
                except Exception as e:
                    p2 = 'raised %s: %s' % (type(e).__name__, e)
                ctx.count('partial_function_before_and_after_a_full_one')
                if p1 != p2:
                    ctx.finding('determinism', 'text_changes_when_another_dump_function_exists',
                                'a dump function without class %s wrote\n    %r\n  and, after a function '
                                'registering all classes had been created and used,\n    %r\n  %s'
                                % (drop, p1, p2, desc()))
                    return
    try:
        text = m.dumps(value)
        text2 = m.dumps(value)
    except Exception as e:
        ctx.finding('dump', 'raises:' + exc_signature(e),
                    'dumps raised %s: %s\n  %s' % (type(e).__name__, e, desc()))
        return
    after = snapshot(value)
    fs = feature(value, m)
    for f in fs:
        ctx.count('feature_' + f)
    if fs - {'enum_or_strlike'}:
        ctx.nontriv([spec, case['value']])
        ctx.sample('+'.join(sorted(fs))[:40], {'value': canon(value), 'yaml': text[:400]})
    # (d) purity, (e) determinism
    if before != after:
        ctx.finding('purity', 'object_graph_modified',
                    'dumping modified the object graph\n  before: %r\n  after:  %r\n  %s'
                    % (before, after, desc()))
        return
    if text != text2:
        ctx.finding('determinism', 'second_dump_differs',
                    'two dumps of the same object differ\n  %r\n  %r\n  %s' % (text, text2, desc()))
        return
    texts = [('dumps', text)]
    if case.get('stream'):
        # the same through dump_function(...)(value, open text stream)
        import io
        buf = io.StringIO()
        try:
            yatiml.dump_function(*m.registered)(value, buf)
        except Exception as e:
            ctx.finding('dump', 'stream_raises:' + exc_signature(e),
                        'dump to a stream raised %s: %s\n  %s' % (type(e).__name__, e, desc()))
            return
        texts.append(('dump to an open stream', buf.getvalue()))
        ctx.count('yaml_stream_sink_checked')
    for how, text in texts:
        if not verify_yaml_text(ctx, how, text, want, collide, desc):
            return
    if collide:
        return
    if case.get('json'):
        check_json_flavour(case, ctx, m, value, desc, item_shared)


def verify_yaml_text(ctx, how, text, want, collide, desc):
    # (a) exactly one well-formed document
    desc_ = desc
    desc = lambda: 'written by: %s\n  %s' % (how, desc_())
    try:
        docs = list(yaml.compose_all(text, Loader=yaml.SafeLoader))
    except yaml.YAMLError as e:
        ctx.finding('wellformed', 'not_parseable',
                    'the dump is not well-formed YAML: %s\n  text: %r\n  %s' % (e, text, desc()))
        return False
    if len(docs) != 1:
        ctx.finding('wellformed', 'document_count',
                    'the dump holds %d documents\n  text: %r\n  %s' % (len(docs), text, desc()))
        return False
    # (b) no explicit tags
    for ev in yaml.parse(text, Loader=yaml.SafeLoader):
        if isinstance(ev, (yaml.ScalarEvent, yaml.SequenceStartEvent, yaml.MappingStartEvent)) \
                and ev.tag is not None:
            ctx.finding('tagfree', 'explicit_tag:' + ('core' if ev.tag.startswith('tag:yaml.org') else 'custom'),
                        'the dump carries the explicit tag %s\n  text: %r\n  %s' % (ev.tag, text, desc()))
            return False
    if collide:
        return True
    # (c) content == projection, in order
    try:
        got = yaml.safe_load(text)
    except yaml.YAMLError as e:
        ctx.finding('content', 'plain_parser_fails',
                    'yaml.safe_load fails on the dump: %s\n  text: %r\n  %s' % (e, text, desc()))
        return False
    if not proj.plain_eq(_norm(got), _norm(want)):
        ctx.finding('content', 'content_differs',
                    'a plain parser reads\n    %r\n  the projection is\n    %r\n  text: %r\n  %s'
                    % (got, want, text, desc()))
        return False
    return True


def simple_for_json(p):
    import math
    if isinstance(p, dict):
        return all(simple_for_json(k) and simple_for_json(v) for k, v in p.items())
    if isinstance(p, list):
        return all(simple_for_json(x) for x in p)
    if isinstance(p, str):
        return all(0x20 <= ord(ch) < 0x7f for ch in p)
    if isinstance(p, float):
        return math.isfinite(p)
    return True


def check_json_flavour(case, ctx, m, value, desc, item_shared):
    """The JSON dump functions are dump functions too: their text is (also) one
    well-formed, tag-free YAML document equal to the projection with dates as
    strings - whatever was dumped before, successfully or not."""
    try:
        want = proj.Projector(m, json=True).project(value)
    except proj.Ambiguous:
        return
    if not simple_for_json(want) or case.get('share') or item_shared:
        ctx.count('json_flavour_skipped')
        return
    dumps = m.dumps_json
    pre = case.get('json')
    if pre in ('after_failure', 'after_failure_elsewhere'):
        shared = [1, 'x']
        fn = dumps if pre == 'after_failure' else yatiml.dumps_json_function()
        try:
            fn({'k': [shared, {'again': shared}]})
        except RuntimeError:
            ctx.count('json_prelude_failed_as_expected')
        except Exception:
            pass
    try:
        text = dumps(value, indent=case.get('indent'))
        text2 = dumps(value, indent=case.get('indent'))
    except Exception as e:
        ctx.finding('dump', 'json_raises:' + exc_signature(e),
                    'dumps_json raised %s: %s\n  %s' % (type(e).__name__, e, desc()))
        return
    ctx.count('json_flavour_checked')
    if case.get('stream'):
        import io
        buf = io.StringIO()
        try:
            yatiml.dump_json_function(*m.registered)(value, buf, indent=case.get('indent'))
        except Exception as e:
            ctx.finding('dump', 'json_stream_raises:' + exc_signature(e),
                        'dump_json to a stream raised %s: %s\n  %s' % (type(e).__name__, e, desc()))
            return
        ctx.count('json_stream_sink_checked')
        _verify_json_text(ctx, 'dump_json to an open stream', buf.getvalue(), want, desc)
    if text != text2:
        ctx.finding('determinism', 'json_second_dump_differs',
                    'two JSON dumps differ\n  %r\n  %r\n  %s' % (text, text2, desc()))
        return
    _verify_json_text(ctx, 'dumps_json', text, want, desc)


def _verify_json_text(ctx, how, text, want, desc_):
    desc = lambda: 'written by: %s\n  %s' % (how, desc_())
    try:
        docs = list(yaml.compose_all(text, Loader=yaml.SafeLoader))
        tags = [ev.tag for ev in yaml.parse(text, Loader=yaml.SafeLoader)
                if isinstance(ev, (yaml.ScalarEvent, yaml.SequenceStartEvent, yaml.MappingStartEvent))
                and ev.tag is not None]
        got = yaml.safe_load(text)
    except yaml.YAMLError as e:
        ctx.finding('wellformed', 'json_not_parseable',
                    'the JSON dump is not a well-formed document: %s\n  text: %r\n  %s' % (e, text, desc()))
        return
    if len(docs) != 1 or tags:
        ctx.finding('wellformed', 'json_documents_or_tags',
                    'the JSON dump holds %d documents, explicit tags %s\n  text: %r\n  %s'
                    % (len(docs), tags[:3], text, desc()))
        return
    if not proj.plain_eq(_norm(got), _norm(want)):
        ctx.finding('content', 'json_content_differs',
                    'a plain parser reads %r from the JSON dump, the projection is %r\n  text: %r\n  %s'
                    % (got, want, text, desc()))


def _norm(p):
    from collections import OrderedDict
    if isinstance(p, dict):
        return OrderedDict((_norm(k), _norm(v)) for k, v in p.items())
    if isinstance(p, list):
        return [_norm(x) for x in p]
    return p


def phases(tier):
    n = 300 if tier != 'thorough' else 5000
    return [HypPhase('models_x_values', cases(), n)]
