"""C04 - a document cannot cause construction of objects the model does not
call for.

Oracle (checked whether or not the load fails; the constructor log survives
the exception): the registered trap class is never constructed, every
constructed class is admissible somewhere in the type model, every logged
constructor call received conforming arguments, Any/untyped/extra positions of
a returned value hold plain data only, and the canary module named by
!!python/* tags is never imported or called.
"""
import sys

from hypothesis import strategies as st

from yv import gen, models, tree as T
from yv.common import canon
from yv.conform import Conf, admissible_classes
from yv.runner import EnumPhase, HypPhase

ID = 'C04'
RULE = ('Hypothesis draws a class model with Any/untyped/_yatiml_extra '
        'positions and a registered trap class no annotation refers to, and a '
        'valid or mutated document with tags (registered class names incl. '
        'the trap, unknown names, !!python/object, /apply, /new, /name, '
        '/module, core-schema tags) injected at 1-5 random nodes (values, '
        'keys, items), optionally with 1-3 anchor/alias pairs that make one '
        'node appear at positions of different declared types; a case is non-trivial when the document composes and '
        'carries at least one injected non-core or !!python/* tag, or a '
        'registered-class tag; distinct = distinct (model, text)')
ASSUMPTIONS = [
    'below Any, core-schema scalar tags are honoured (bytes/date possible); '
    'only non-plain objects, constructor calls and imports are violations',
    'the canary module yv_canary is importable (on sys.path) so that an '
    'unsafe loader would import it',
]
BUDGET_S = {'quick': 240, 'thorough': 2400}

FEATS = ('hier', 'abstract', 'unreg', 'extra', 'enum', 'strlike', 'any',
         'untyped', 'date', 'path', 'defaults', 'hooks', 'permissive', 'trap',
         'opt_any', 'seasoned', 'underscore')


def leaf_sites(v, spec, path=()):
    """(tree path, leaf value spec) for every scalar leaf that is a value (not a
    key) in the projection of a value spec."""
    k = v[0]
    if k == 'obj':
        if gen.classes_by_name(spec)[v[1]].get('index'):
            return
        for i, (n, x) in enumerate(v[2]):
            yield from leaf_sites(x, spec, path + (1, i, 1))
        for j, (a, b) in enumerate(v[3] or []):
            yield from leaf_sites(b, spec, path + (1, len(v[2]) + j, 1))
    elif k == 'list':
        for i, x in enumerate(v[1]):
            yield from leaf_sites(x, spec, path + (1, i))
    elif k in ('dict', 'odict'):
        for i, (a, b) in enumerate(v[1]):
            yield from leaf_sites(b, spec, path + (1, i, 1))
    else:
        yield path, v


def alias_typed(draw, spec):
    """A valid document in which a plain string value and an enum / string-like /
    path value are one anchored scalar referenced twice."""
    v = draw(gen.vspec_for(spec, spec['doc_type'], hard=False, omit_defaults=False))
    if v is None:
        return None
    leaves = list(leaf_sites(v, spec))
    typed = [(p, x) for p, x in leaves if x[0] in ('enum', 'strlike', 'path')]
    plain = [(p, x) for p, x in leaves if x[0] == 'str']
    if not typed or not plain:
        return None
    (pt_, tv), (pp, _) = draw(st.sampled_from(typed)), draw(st.sampled_from(plain))
    t = gen.project(v, spec)
    node = T.get_at(t, pt_)
    first, second = sorted([pt_, pp])
    t = T.set_at(t, second, ['*', 'sh'])
    t = T.set_at(t, first, ['&', 'sh', node])
    return t


def tagged_object_below_unknown_key(draw, spec, t):
    import copy
    objs = [c for c in spec['classes'] if c.get('kind', 'obj') == 'obj' and c.get('reg', True)
            and not c.get('abstract')]
    if not objs:
        return None
    traps = [c for c in objs if c['name'] == 'Trap']
    c = draw(st.sampled_from(traps if traps and draw(st.booleans()) else objs))
    v = draw(gen.vspec_for(dict(spec, doc_type=['ref', c['name']]), ['ref', c['name']], hard=False))
    if v is None or v[0] != 'obj':
        return None
    sub = gen.project(v, spec)
    sub[2] = '!' + v[1]
    nest = draw(st.integers(0, 3))
    if nest == 1:
        sub = T.Q([sub, T.S('x')])
    elif nest == 2:
        # two untagged levels above the tagged object
        sub = T.M([('meta', T.Q([T.S('x'), T.M([('owner', sub)])]))])
    maps = [(p, s) for p, s in T.subtrees(t) if s[0] == 'm']
    if not maps:
        return None
    p, mp = draw(st.sampled_from(maps))
    mp = copy.deepcopy(mp)
    # an unknown key, or a second occurrence of a present key (also under its
    # dashed spelling: after dashes_to_unders_in_keys both collide)
    present = [k[1] for k, _ in mp[1] if k[0] == 's']
    names = ['zz_extra', 'Key', 'another-key', '_yatiml_extra', 'self'] + present + [k.replace('_', '-') for k in present if '_' in k]
    if draw(st.integers(0, 3)) == 0:
        # the tagged object (or a list holding it) is itself the key of a pair
        pair = [sub, T.S('v')]
    else:
        pair = [T.S(draw(st.sampled_from(names))), sub]
    mp[1].insert(draw(st.integers(0, len(mp[1]))), pair)
    return T.set_at(t, p, mp)


def duplicate_tagged(draw, spec, subs=None):
    """(spec', tree): a document of a class whose duplicate keys the automatic
    recogniser does not see (custom _yatiml_recognize, or two spellings that
    dashes_to_unders_in_keys makes collide), with a tagged Trap object under
    the second occurrence of a key."""
    import copy
    cands = []
    for c in spec['classes']:
        if c.get('kind', 'obj') != 'obj' or not c.get('reg', True) or c.get('abstract') or c.get('index'):
            continue
        custom = isinstance(c.get('recognize'), list)
        dashes = ['dashes_to_unders'] in (c.get('savorize') or []) and \
            any('_' in p['name'] for p in c.get('params', []))
        if custom or dashes:
            cands.append((c, custom, dashes))
    if not cands:
        return None
    c, custom, dashes = draw(st.sampled_from(cands))
    spec2 = dict(spec, doc_type=['ref', c['name']])
    v = draw(gen.vspec_for(spec2, spec2['doc_type'], hard=False, omit_defaults=False))
    if v is None or v[0] != 'obj' or v[1] != c['name'] or not v[2]:
        return None
    t = gen.project(v, spec2)
    names = [n for n, _ in v[2]]
    if dashes and (not custom or draw(st.booleans())):
        und = [n for n in names if '_' in n]
        if not und:
            return None
        key = draw(st.sampled_from(und)).replace('_', '-')
    else:
        key = draw(st.sampled_from(names))
    sub = draw(st.sampled_from(subs or [T.M([], '!Trap'), T.M([('a', T.S('1'))], '!Trap'),
                                        T.Q([T.M([], '!Trap')])]))
    t = copy.deepcopy(t)
    t[1].append([T.S(key), sub])
    return spec2, t


@st.composite
def cases(draw):
    spec = draw(gen.models(FEATS))
    if draw(st.integers(0, 7)) == 0:
        r = duplicate_tagged(draw, spec)
        if r is not None:
            return {'model': r[0], 'text': T.render_flow(r[1]), 'src': 'value+duplicate_tagged'}
    if draw(st.integers(0, 5)) == 0:
        t = alias_typed(draw, spec)
        if t is not None:
            return {'model': spec, 'text': T.render_flow(t), 'src': 'value+alias_typed'}
    t, origin = draw(gen.doc_for(spec, tags=False, hard=False,
                                 mutations=draw(st.booleans())))
    n = draw(st.sampled_from([1, 1, 2, 3, 5]))
    t, ops = draw(gen.mutate(spec, t, n=n, kinds=['tag']))
    src = origin.split(':')[0]
    if draw(st.integers(0, 3)) == 0:
        # a well-formed tagged object of a registered class below an unknown
        # (extra / extraneous) key of some mapping, or as an extra list item
        t2 = tagged_object_below_unknown_key(draw, spec, t)
        if t2 is not None:
            t, src = t2, src + '+tagged_extra'
    if draw(st.integers(0, 3)) == 0:
        # anchors/aliases: one node referenced from positions of different types
        t, info = draw(gen.share(t))
        if info:
            src += '+alias'
    return {'model': spec, 'text': T.render_flow(t), 'src': src}


def check(case, ctx):
    from yv import fuzzphase
    if fuzzphase.note_stats(case, ctx):
        return
    if 'fuzz' in case:
        case = {'model': fuzzphase.model_of(case), 'text': case['text'], 'src': 'fuzz'}
    spec = case['model']
    m = models.build(spec)
    load = m.load
    text = case['text']
    sys.modules.pop('yv_canary', None)
    outcome = 'loaded'
    v = None
    try:
        v = load(text)
    except RecursionError:
        outcome = 'RecursionError'
    except Exception as e:
        outcome = 'raised'
    ctx.count(outcome)
    if '+alias' in case.get('src', ''):
        ctx.count('with_alias')
    if '+tagged_extra' in case.get('src', ''):
        ctx.count('with_tagged_object_below_unknown_key')
    if 'yv_canary' in sys.modules:
        called = list(sys.modules['yv_canary'].CALLED)
        sys.modules.pop('yv_canary', None)
        ctx.finding('import', 'canary_imported',
                    'loading imported the module named by the document '
                    '(calls: %r)\n  text: %r\n  model: %s' % (called, text, spec))
        return
    adm = admissible_classes(spec)
    inits = [e for e in m.log if e[0] == 'init']
    for e in inits:
        if e[2] == 'Trap' or e[2] not in adm:
            ctx.finding('construct', 'inadmissible_class_constructed',
                        'constructor of %s ran although no position of the '
                        'type model admits it\n  text: %r\n  model: %s'
                        % (e[2], text, spec))
            return
    conf = Conf(m)
    why = []
    if not conf.check_init_log(why):
        ctx.finding('init_args', 'unchecked_constructor_argument',
                    'a constructor ran with an argument that did not pass '
                    'the type check: %s\n  text: %r\n  model: %s'
                    % ('; '.join(why[:3]), text, spec))
        return
    if outcome == 'loaded':
        why = []
        if not conf.conforms(v, spec['doc_type'], why):
            ctx.finding('value', 'non_plain_or_nonconforming_value',
                        'load returned %s\n  reason: %s\n  text: %r\n  model: %s'
                        % (canon(v), '; '.join(why[:3]), text, spec))
            return
    tagged = ('!' in text)
    if tagged:
        py = '!!python' in text
        regtag = any(('!' + c['name'] + ' ') in text or ('!' + c['name'] + '}') in text
                     for c in spec['classes'])
        noncore = py or regtag or '!Unknown' in text or '!Path' in text
        if noncore:
            ctx.nontriv([spec, text])
            label = ('python_tag' if py else 'class_tag' if regtag else 'other_tag') + '_' + outcome
            ctx.count(label)
            ctx.sample(label, {'doc_type': spec['doc_type'], 'text': text,
                               'constructed': [e[2] for e in inits],
                               'outcome': outcome})


# An object written as a sequence (recognised as a sequence, turned into a
# mapping by _yatiml_savorize re-using the item nodes): whatever is decided
# about the node before seasoning must be decided again afterwards.
_P = lambda n, t, d=None: dict({'name': n, 'type': t}, **({'default': d} if d is not None else {}))
SEQFORM = {'classes': [
    {'name': 'Trap', 'kind': 'obj', 'bases': [], 'params': [_P('a', 'int', ['int', 0])]},
    {'name': 'Tg', 'kind': 'obj', 'bases': [], 'params': [_P('host', 'str'), _P('port', 'int', ['int', 22])]},
    {'name': 'Step', 'kind': 'obj', 'bases': [], 'params': [_P('name', 'str'), _P('args', 'any')],
     'recognize': [['sequence']], 'savorize': [['seq_to_attrs', ['name', 'args']]]},
    {'name': 'Unty', 'kind': 'obj', 'bases': [], 'params': [_P('name', 'str'), _P('args', None)],
     'recognize': [['sequence']], 'savorize': [['seq_to_attrs', ['name', 'args']]]},
    {'name': 'Dep', 'kind': 'obj', 'bases': [], 'params': [_P('name', 'str'), _P('target', ['ref', 'Tg'])],
     'recognize': [['sequence']], 'savorize': [['seq_to_attrs', ['name', 'target']]]},
    {'name': 'Lst', 'kind': 'obj', 'bases': [], 'params': [_P('name', 'str'), _P('ports', ['list', 'int'])],
     'recognize': [['sequence']], 'savorize': [['seq_to_attrs', ['name', 'ports']]]},
], 'order': ['Trap', 'Tg', 'Step', 'Unty', 'Dep', 'Lst']}


def enum_seqform(shard, nshards):
    payloads = ['!Trap {a: 1}', '!Trap {}', '[!Trap {a: 1}]', '{k: !Trap {a: 2}}', '{k: [x, !Trap {}]}',
                '!Tg {host: h}', '!!python/object:yv_canary.Thing {}',
                '!!python/object/apply:yv_canary.hit [1]', '!!python/name:yv_canary.hit',
                '!Unknown {a: 1}', '{host: h}', 'x', '[1, 2]', '[1, true]', '{a: 1}', '!Trap x']
    i = 0
    for cls in ('Step', 'Unty', 'Dep', 'Lst'):
        for wrap in ('%s', '[%s]', '{k: %s}'):
            dt = {'%s': ['ref', cls], '[%s]': ['list', ['ref', cls]],
                  '{k: %s}': ['dict', 'str', ['ref', cls]]}[wrap]
            for pl in payloads:
                for doc in ('[run, %s]' % pl, '[%s, run]' % pl, '[run, %s, x]' % pl):
                    if i % nshards == shard:
                        yield {'model': dict(SEQFORM, doc_type=dt), 'text': wrap % doc,
                               'src': 'seqform'}
                    i += 1


def phases(tier):
    n = 250 if tier != 'thorough' else 4000
    ph = [HypPhase('models_x_tagged_documents', cases(), n),
          EnumPhase('sequence_form_template', enum_seqform,
                    'classes written as a sequence and turned into a mapping by '
                    '_yatiml_savorize (item nodes re-used as attribute values), with Any, '
                    'untyped, class-typed and List[int] second attributes: 16 payloads '
                    '(tagged registered / trap / python / unknown objects, plain data) x 3 '
                    'item orders x root / list / dict positions')]
    if tier == 'thorough':
        from yv import fuzzphase
        ph.append(fuzzphase.fuzz_phase('C04', 200000))
    return ph
