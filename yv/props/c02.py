"""C02 - load accepts exactly what the documented pipeline admits and builds
that value.

Oracle: yv.refsem (independent reference semantics) vs load() on the same
text: accept <=> load returns; reject <=> RecognitionError; on accept the
values are structurally equal (exact classes, defaults, ordered extras).
"""
import itertools
from functools import lru_cache

import yaml
from hypothesis import strategies as st

import yatiml

from yv import gen, models, portfolio, pt, refsem, tree as T
from yv.common import canon, exc_signature, strict_eq
from yv.runner import EnumPhase, HypPhase

ID = 'C02'
RULE = ('(generated) Hypothesis draws a class model with automatic recognition '
        'only (hierarchies, abstract/unregistered classes, enums, string-likes '
        'also as keys, defaults, _yatiml_extra, Any/untyped, date, Path, '
        'bool_union_fix, abstract containers, declarative savorize ops, '
        'raising constructors) and a document: a rendered value of the '
        'document type, 1-2 local mutations of one, or a random tree over the '
        'model\'s vocabulary; (exhaustive) every document tree with at most N '
        'nodes over each portfolio model\'s key/scalar alphabet. Non-trivial: '
        'the reference accepts and the value holds a class instance, or it '
        'rejects for a reason other than a top-level kind mismatch; distinct = '
        'distinct (model, text)')
ASSUMPTIONS = [
    'documents have distinct scalar mapping keys, no cyclic aliases (acyclic aliases are read as their expansion), no merge keys, '
    'no explicit non-core tags (those belong to C03/C04/C08/C18) except one '
    'tagged object of a registered class placed below an unknown key (src '
    '+tagged_extra: plain data in _yatiml_extra, or a rejection); others are '
    'counted and skipped',
    'scalars are parsed by PyYAML\'s SafeConstructor in the reference (what '
    'resolves to what is C09\'s property)',
    'exceptions other than RecognitionError are C08\'s business and only counted here',
]
BUDGET_S = {'quick': 240, 'thorough': 2400}

FEATS = ('hier', 'abstract', 'unreg', 'extra', 'enum', 'strlike', 'any',
         'untyped', 'date', 'path', 'buf', 'abstract_containers', 'defaults',
         'multi', 'hooks', 'norecognize', 'seasoned', 'raises', 'underscore', 'recursive')


@st.composite
def cases(draw):
    spec = draw(gen.models(FEATS))
    t, origin = draw(gen.doc_for(spec, tags=False, hard=draw(st.booleans())))
    src = origin.split(':')[0]
    if draw(st.integers(0, 5)) == 0:
        # "extra attributes arrive as plain data": a tagged object of a
        # registered class (also nested in untagged collections) below an
        # unknown key - plain data where the class takes _yatiml_extra,
        # a rejection where it does not
        from yv.props import c04
        t2 = c04.tagged_object_below_unknown_key(draw, spec, t)
        if t2 is not None:
            return {'model': spec, 'text': T.render_flow(t2), 'src': src + '+tagged_extra',
                    'tags_ok': True}
    if draw(st.integers(0, 5)) == 0:
        t, info = draw(gen.share(t))
        if info:
            src += '+aliases'
    return {'model': spec, 'text': T.render_flow(t), 'src': src}


def has_instance(v):
    from yv.common import is_gen_obj
    if is_gen_obj(v):
        return True
    if isinstance(v, list):
        return any(has_instance(x) for x in v)
    if isinstance(v, dict):
        return any(has_instance(x) for x in v.values())
    return False


def in_domain(node, tags_ok=False):
    """No explicit non-core tags, scalar distinct keys, no aliases."""
    onpath = set()

    def go(n):
        # acyclic aliases stand for their expansion (C18), which is what the
        # reference reads; only cycles are outside the domain
        if id(n) in onpath:
            return 'cyclic_alias'
        onpath.add(id(n))
        try:
            return go_(n)
        finally:
            onpath.discard(id(n))

    def go_(n):
        if not n.tag.startswith('tag:yaml.org,2002:') and not tags_ok:
            return 'noncore_tag'
        if isinstance(n, yaml.SequenceNode):
            for i in n.value:
                r = go(i)
                if r:
                    return r
        elif isinstance(n, yaml.MappingNode):
            ks = set()
            for k, v in n.value:
                if not isinstance(k, yaml.ScalarNode):
                    return 'complex_key'
                if k.value == '<<' and k.tag.endswith(':merge'):
                    return 'merge_key'
                if k.value in ks:
                    return 'duplicate_key'
                ks.add(k.value)
                r = go(k) or go(v)
                if r:
                    return r
        return None
    return go(node)


def compare(spec, text, ctx, label, tags_ok=False):
    m = models.build(spec)
    try:
        node = T.compose_raw(text)
    except yaml.YAMLError:
        ctx.count('unparseable')
        return
    if node is not None:
        bad = in_domain(node, tags_ok)
        if bad:
            ctx.count('out_of_domain_' + bad)
            return
    ref = refsem.Ref(m)
    tree = None if node is None else pt.from_plain(T.plain(node))
    try:
        want = ('ok', ref.load(tree))
    except refsem.Reject as r:
        want = ('rej', r.reason, str(r))
    except refsem.Unsupported as e:
        ctx.count('reference_unsupported')
        return
    m.reset()
    try:
        got = ('ok', m.load(text))
    except yatiml.RecognitionError as e:
        got = ('rej', str(e))
    except yaml.YAMLError as e:
        got = ('yamlerr', str(e))
    except Exception as e:
        ctx.count('other_exception_' + type(e).__name__)
        return
    ctx.count('%s_ref_%s' % (label, want[0] if want[0] == 'ok' else 'rej_' + want[1]))
    if want[0] == 'ok':
        if has_instance(want[1]):
            ctx.nontriv([spec, text])
            ctx.sample(label + '_accepted', {'doc_type': spec['doc_type'], 'text': text,
                                             'value': canon(want[1])})
    elif want[1] != 'no_match' or (node is not None and not isinstance(node, yaml.ScalarNode)):
        ctx.nontriv([spec, text])
        ctx.sample(label + '_rejected_' + want[1],
                   {'doc_type': spec['doc_type'], 'text': text, 'reason': want[2]})
    if want[0] == 'ok' and got[0] != 'ok':
        ctx.finding('accept', 'rejected_valid',
                    'the documented pipeline admits the document (value %s) but load raised %s\n  text: %r\n  model: %s'
                    % (canon(want[1]), got[1].strip().replace('\n', ' | ')[:600], text, spec))
    elif want[0] == 'rej' and got[0] == 'ok':
        ctx.finding('accept', 'accepted_invalid:' + want[1],
                    'the documented pipeline rejects the document (%s) but load returned %s\n  text: %r\n  model: %s'
                    % (want[2], canon(got[1]), text, spec))
    elif want[0] == 'ok' and not strict_eq(want[1], got[1]):
        ctx.finding('value', 'value_differs',
                    'load returned %s\n  expected  %s\n  text: %r\n  model: %s'
                    % (canon(got[1]), canon(want[1]), text, spec))


def check(case, ctx):
    from yv import fuzzphase
    if fuzzphase.note_stats(case, ctx):
        return
    if case.get('expect') == 'reject':
        # a class mapping whose root has a merge key or a collection as a key:
        # "only string keys" - never admitted
        spec = portfolio.MODELS[case['portfolio']]
        m = models.build(spec)
        ctx.count('non_string_key_in_class_mapping')
        try:
            v = m.load(case['text'])
        except (yatiml.RecognitionError, yaml.YAMLError):
            ctx.nontriv([case['portfolio'], case['text']])
            return
        except Exception as e:
            ctx.count('other_exception')
            return
        ctx.finding('accept', 'accepted_invalid:non_string_key',
                    'a class mapping with a merge key / collection key loaded as %s\n  text: %r\n  model: %s'
                    % (canon(v), case['text'], spec))
        return
    if 'portfolio' in case:
        spec = portfolio.MODELS[case['portfolio']]
        compare(spec, case['text'], ctx, 'enum')
        return
    ctx.count('src_' + case.get('src', '?'))
    compare(case['model'], case['text'], ctx, 'gen', bool(case.get('tags_ok')))


# ---------------------------------------------------------------------------
def small_trees(n, keys, scals):
    """All document texts (flow style) with exactly n nodes."""
    keys = tuple(keys)

    @lru_cache(None)
    def go(k):
        out = []
        if k == 1:
            return list(scals) + ['[]', '{}']

        def parts(total):
            if total == 0:
                yield ()
                return
            for f in range(1, total + 1):
                for r in parts(total - f):
                    yield (f,) + r
        for p in parts(k - 1):
            for combo in itertools.product(*[go(x) for x in p]):
                out.append('[' + ', '.join(combo) + ']')
                for ks in itertools.permutations(keys, len(combo)):
                    out.append('{' + ', '.join(a + ': ' + b for a, b in zip(ks, combo)) + '}')
        return out
    return go(n)


def enum_small(bounds):
    """bounds: {portfolio model name: max node count}"""
    def gen_(shard, nshards):
        i = 0
        for name in sorted(bounds):
            keys = portfolio.KEYS[name]
            scals = portfolio.SCALS_BY.get(name, portfolio.SCALS)
            for n in range(1, bounds[name] + 1):
                for text in small_trees(n, tuple(keys), tuple(scals)):
                    if i % nshards == shard:
                        yield {'portfolio': name, 'text': text}
                    i += 1
    return gen_


DEEP = ['P', 'E', 'U2', 'AB', 'V', 'L', 'BF', 'DK', 'PR', 'SV', 'DI']


def enum_merge_keys(shard, nshards):
    """Class mappings with a YAML merge key ('<<') or a collection as a key: not
    'only string keys', so never admitted - whatever the merged pairs are."""
    i = 0
    for name in ('P', 'V', 'E', 'D', 'DS', 'U2', 'PR', 'UN'):
        keys = portfolio.KEYS[name][:4]
        scals = portfolio.SCALS_BY.get(name, portfolio.SCALS)[:4]
        for k1 in keys:
            for v1 in scals:
                for k2 in keys:
                    for v2 in scals[:3]:
                        docs = ['{<<: {%s: %s}}' % (k1, v1),
                                '{<<: {%s: %s}, %s: %s}' % (k1, v1, k2, v2),
                                '{%s: %s, <<: {%s: %s}}' % (k2, v2, k1, v1),
                                '{<<: [{%s: %s}, {%s: %s}]}' % (k1, v1, k2, v2),
                                '{? [%s] : %s, %s: %s}' % (k1, v1, k2, v2),
                                '{? {%s: %s} : 1, %s: %s}' % (k1, v1, k2, v2)]
                        for d in docs:
                            if i % nshards == shard:
                                yield {'portfolio': name, 'text': d, 'expect': 'reject'}
                            i += 1


def _base_phases(tier):
    quick = tier != 'thorough'
    names = sorted(portfolio.MODELS)
    if quick:
        b = {n: (4 if n in DEEP else 3) for n in names}
    else:
        b = {n: (5 if n in DEEP[:4] else 4) for n in names}
    note = ('every document tree with at most N nodes over each portfolio model\'s '
            'key/scalar alphabet, N per model: %s' % b)
    return [
        HypPhase('generated', cases(), 250 if quick else 4000),
        EnumPhase('small_documents', enum_small(b), note),
        EnumPhase('merge_and_collection_keys', enum_merge_keys,
                  '8 portfolio models x key/value pairs merged in through <<, before and after '
                  'ordinary keys, as a list of mappings; sequences and mappings as keys'),
    ]


def phases(tier):
    ph = _base_phases(tier)
    if tier == 'thorough':
        from yv import fuzzphase
        ph.append(fuzzphase.struct_fuzz_phase('C02', 15000))
    return ph
