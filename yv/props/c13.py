"""C13 - load is invariant under changes that do not alter the document's meaning.

Metamorphic relations (no reference needed): key order of class mappings (T1),
re-serialisation in another style with the same node tags (T2), registering
additional unrelated classes (T3), interchanging List/Sequence/MutableSequence
and Dict/Mapping/MutableMapping (T4), adding bool_union_fix to Unions with
bool (T5).
"""
import copy

import yaml
from hypothesis import strategies as st

import yatiml

from yv import gen, models, tree as T
from yv.common import canon, strict_eq
from yv.runner import HypPhase

ID = 'C13'
RULE = ('Hypothesis draws a class model (all loading features except '
        'adversarial hooks) and a document (value-derived, mutated, tagged or '
        'random; for T1 a value-derived document with an optional by-name '
        'corruption: dropped/unknown/mistyped attribute) and one '
        'transformation: T1 permute the keys of every mapping that was '
        'generated as a class instance; T2 re-serialise in block, flow, '
        'double-quoted, single-quoted, literal, canonical, JSON-like, narrow, '
        'wide-indent or explicit-marker style; T3 register 1-3 additional '
        'unrelated classes; T4 swap the abstract/concrete container '
        'annotations everywhere; T5 insert bool_union_fix into every Union '
        'with bool. Non-trivial: the transformation actually changed the text '
        'or the model; distinct = distinct (model, text, transformation)')
ASSUMPTIONS = [
    'T2 precondition is checked mechanically: both texts compose (with '
    'yatiml\'s resolver, no processing) to identical (kind, tag, value) trees; '
    'otherwise the case is counted and skipped',
    'T1 compares mappings order-insensitively (key order legitimately flows '
    'into dicts and _yatiml_extra)',
    'exceptions other than RecognitionError/YAMLError are C08\'s business; '
    'such cases are counted and skipped',
]
BUDGET_S = {'quick': 240, 'thorough': 2400}

FEATS = ('hier', 'abstract', 'unreg', 'extra', 'enum', 'strlike', 'any',
         'untyped', 'date', 'path', 'buf', 'abstract_containers', 'defaults',
         'multi', 'hooks', 'seasoned', 'discriminator')


def permute_objs(draw, v):
    """Permute attribute order of every class instance in a value spec."""
    k = v[0]
    if k == 'obj':
        kw = [[n, permute_objs(draw, x)] for n, x in v[2]]
        kw = list(draw(st.permutations(kw)))
        return ['obj', v[1], kw, v[3]]
    if k == 'list':
        return ['list', [permute_objs(draw, x) for x in v[1]]]
    if k in ('dict', 'odict'):
        return [k, [[a, permute_objs(draw, b)] for a, b in v[1]]]
    return v


def corrupt(draw, v, spec, force=None):
    """By-name corruption of one class instance somewhere in the value spec."""
    objs = []
    by = gen.classes_by_name(spec)

    def walk(x, path):
        if x[0] == 'obj':
            if by.get(x[1], {}).get('index'):
                return      # items of an index are projected specially
            objs.append(path)
            for i, (n, y) in enumerate(x[2]):
                walk(y, path + [2, i, 1])
        elif x[0] == 'list':
            for i, y in enumerate(x[1]):
                walk(y, path + [1, i])
        elif x[0] in ('dict', 'odict'):
            for i, (a, b) in enumerate(x[1]):
                walk(b, path + [1, i, 1])
    walk(v, [])
    if not objs:
        return v, None
    v = copy.deepcopy(v)
    path = draw(st.sampled_from(objs))
    o = v
    for p in path:
        o = o[p]
    kind = force or draw(st.sampled_from(['drop', 'wrong', 'unknown', 'dashed_twin', 'dashed_twin']))
    und = [n for n, _ in o[2] if '_' in n]
    if kind == 'dashed_twin' and not und:
        kind = 'unknown'
    if kind == 'dashed_twin':
        # both spellings of a key present; the dashed one may hold anything
        n = draw(st.sampled_from(und))
        o[2].append([n.replace('_', '-'), draw(st.sampled_from(
            [['str', 'wrong'], ['int', 99], ['list', []], ['none'], ['bool', True]]))])
    elif kind == 'unknown':
        o[2].append(['zz_unknown', ['int', 1]])
    elif o[2]:
        i = draw(st.integers(0, len(o[2]) - 1))
        if kind == 'drop':
            o[2].pop(i)
        else:
            o[2][i][1] = draw(st.sampled_from([['str', 'wrong'], ['int', 99], ['list', []],
                                               ['none'], ['dict', []]]))
    return v, kind


@st.composite
def cases(draw):
    spec = draw(gen.models(FEATS))
    tk = draw(st.sampled_from(['T1', 'T1', 'T2', 'T2', 'T2', 'T3', 'T4', 'T5']))
    objs = [c['name'] for c in spec['classes'] if c.get('kind', 'obj') == 'obj'
            and c.get('reg', True) and not c.get('abstract')]
    big = [c['name'] for c in spec['classes'] if c['name'] in objs and len(c['params']) >= 2]
    inner = ['ref', draw(st.sampled_from(objs))] if objs and draw(st.booleans()) else 'int'
    if tk == 'T1' and big and draw(st.integers(0, 3)) > 0:
        spec = dict(spec, doc_type=draw(st.sampled_from(
            [['ref', draw(st.sampled_from(big))], ['list', ['ref', draw(st.sampled_from(big))]]])))
    elif tk == 'T4' and draw(st.integers(0, 2)) > 0:
        spec = dict(spec, doc_type=draw(st.sampled_from(
            [['list', inner], ['dict', 'str', ['seq', inner]], ['opt', ['mmap', 'str', inner]],
             ['union', ['mseq', inner], ['map', 'str', 'str']]])))
    elif tk == 'T5' and draw(st.integers(0, 2)) == 0:
        # a later Union member that also accepts a bool scalar: an enum
        enums = [c['name'] for c in spec['classes'] if c.get('kind') == 'enum']
        if not enums:
            spec = dict(spec, classes=spec['classes'] + [
                {'name': 'En', 'kind': 'enum', 'members': ['red', 'true']}],
                order=list(spec['order']) + ['En'])
            enums = ['En']
        en = ['ref', draw(st.sampled_from(enums))]
        spec = dict(spec, doc_type=draw(st.sampled_from(
            [['union', 'bool', en], ['union', 'bool', 'int', en], ['list', ['union', en, 'bool']],
             ['dict', 'str', ['union', 'bool', en, 'none']]])))
    elif tk == 'T5' and draw(st.integers(0, 3)) > 0:
        spec = dict(spec, doc_type=draw(st.sampled_from(
            [['union', 'bool', 'int'], ['list', ['union', 'int', 'bool']],
             ['dict', 'str', ['union', 'bool', 'str', ['list', 'bool']]],
             ['opt', ['union', 'bool', 'float']], ['list', ['union', inner, 'bool', 'none']]])))
    force_twin = False
    if tk == 'T1' and draw(st.integers(0, 3)) == 0:
        # a class that tolerates extra keys and has underscored attributes: the
        # dashed spelling may then be present next to the underscored one
        xt = {'name': 'XT', 'kind': 'obj', 'bases': [], 'extra': draw(st.sampled_from(['required', 'default'])),
              'params': [{'name': 'some_key', 'type': draw(st.sampled_from(['int', 'str', ['list', 'int']]))},
                         {'name': 'n_1', 'type': 'str', 'default': ['str', 'x']}]}
        spec = dict(spec, classes=spec['classes'] + [xt], order=list(spec['order']) + ['XT'],
                    doc_type=draw(st.sampled_from([['ref', 'XT'], ['list', ['ref', 'XT']],
                                                   ['union', ['ref', 'XT'], ['dict', 'str', 'int']]])))
        force_twin = True
    if tk == 'T1':
        v = draw(gen.vspec_for(spec, spec['doc_type'], hard=False))
        if v is not None:
            how = None
            if force_twin or draw(st.integers(0, 2)) == 0:
                v, how = corrupt(draw, v, spec, 'dashed_twin' if force_twin else None)
            v2 = permute_objs(draw, v)
            return {'model': spec, 'T': 'T1', 'text': T.render_flow(gen.project(v, spec)),
                    'text2': T.render_flow(gen.project(v2, spec)), 'src': how or 'value'}
        tk = 'T2'
    if tk == 'T2' and draw(st.integers(0, 4)) == 0:
        # valid explicit tags: every class mapping tagged with its own class
        # (in hierarchies and Unions the tag then rules other candidates out)
        v = draw(gen.vspec_for(spec, spec['doc_type'], hard=False))
        if v is not None:
            from yv.props.c01 import obj_sites
            t = gen.project(v, spec)
            for path, o in obj_sites(v, spec):
                node = copy.deepcopy(T.get_at(t, path))
                if node[0] == 'm' and draw(st.integers(0, 3)) > 0:
                    node[2] = '!' + o[1]
                    t = T.set_at(t, path, node)
            return {'model': spec, 'T': 'T2', 'text': T.render_flow(t), 'src': 'value+own_tags',
                    'style': draw(st.sampled_from(T.STYLES))}
    if tk == 'T2' and draw(st.integers(0, 3)) == 0:
        # every position below Any: explicit tags (also on scalars) must be
        # ignored whatever the style
        spec = dict(spec, doc_type=draw(st.sampled_from(
            ['any', ['dict', 'str', 'any'], ['list', 'any'], ['opt', ['list', 'any']]])))
        t = draw(gen.random_trees(spec))
        t, ops = draw(gen.mutate(spec, t, n=draw(st.integers(1, 3)), kinds=['tag']))
        origin = 'random_below_any+tag'
    else:
        t, origin = draw(gen.doc_for(spec, tags=draw(st.integers(0, 3)) == 0, hard=draw(st.booleans())))
    case = {'model': spec, 'T': tk, 'text': T.render_flow(t), 'src': origin.split(':')[0]}
    if tk == 'T2':
        case['style'] = draw(st.sampled_from(T.STYLES))
    elif tk == 'T3':
        case['extra_classes'] = draw(st.integers(1, 3))
        case['variant'] = draw(st.integers(0, 7))
        case['first'] = draw(st.booleans())
    elif tk == 'T4':
        case['rot'] = draw(st.integers(1, 2))
    elif tk == 'T5':
        case['pos'] = draw(st.integers(0, 3))
    return case


SEQS = ['list', 'seq', 'mseq']
MAPS = ['dict', 'map', 'mmap']


def map_types(spec, f):
    s = copy.deepcopy(spec)

    def go(t):
        if isinstance(t, list):
            t = [t[0]] + [go(x) for x in t[1:]]
            return f(t)
        return t
    s['doc_type'] = go(s['doc_type'])
    for c in s['classes']:
        for p in c.get('params', []):
            if p.get('type') is not None:
                p['type'] = go(p['type'])
    return s


def t4(spec, rot):
    def f(t):
        if t[0] in SEQS:
            return [SEQS[(SEQS.index(t[0]) + rot) % 3]] + t[1:]
        if t[0] in MAPS:
            return [MAPS[(MAPS.index(t[0]) + rot) % 3]] + t[1:]
        return t
    return map_types(spec, f)


def t5(spec, pos):
    def f(t):
        if t[0] == 'union' and 'bool' in t[1:] and 'buf' not in t[1:]:
            ms = t[1:]
            ms.insert(min(pos, len(ms)), 'buf')
            return ['union'] + ms
        return t
    return map_types(spec, f)


def t3(spec, n, first, variant=0):
    """Register additional classes no annotation refers to and no document of the
    model can match (attribute names of their own). `variant` chooses what kind
    of classes: 0 = an enum and flat classes (as before); other bits add a
    base/derived pair, an abstract base with a concrete child, a string-like
    class, a class with hooks - so that facts about the *set* of registered
    classes change ("there is a hierarchy", "there is an abstract class", ...)."""
    s = copy.deepcopy(spec)
    new = [{'name': 'Zq%d' % i, 'kind': 'obj', 'bases': [], 'params': [
        {'name': 'zq_attr%d' % i, 'type': 'int'},
        {'name': 'a', 'type': 'str', 'default': ['str', 'z']}]} for i in range(n)]
    new[0] = {'name': 'Zq0', 'kind': 'enum', 'members': ['zq_red', 'zq_blue']}
    if variant & 1:
        new += [{'name': 'ZqBase', 'kind': 'obj', 'bases': [], 'params': [{'name': 'zq_b', 'type': 'int'}]},
                {'name': 'ZqDer', 'kind': 'obj', 'bases': ['ZqBase'], 'params': [
                    {'name': 'zq_b', 'type': 'int'}, {'name': 'zq_c', 'type': 'str'}]}]
    if variant & 2:
        new += [{'name': 'ZqAbs', 'kind': 'obj', 'bases': [], 'abstract': 'abc',
                 'params': [{'name': 'zq_d', 'type': 'int'}]},
                {'name': 'ZqCon', 'kind': 'obj', 'bases': ['ZqAbs'], 'params': [
                    {'name': 'zq_d', 'type': 'int'}, {'name': 'zq_e', 'type': 'int'}]}]
    if variant & 4:
        new += [{'name': 'ZqStr', 'kind': 'userstring'},
                {'name': 'ZqHk', 'kind': 'obj', 'bases': [], 'params': [{'name': 'zq_f', 'type': 'int'}],
                 'recognize': [['attr', 'zq_f']], 'savorize': [['dashes_to_unders']]}]
    s['classes'] = s['classes'] + new
    order = list(s.get('order') or [c['name'] for c in spec['classes']])
    names = [c['name'] for c in new]
    s['order'] = names + order if first else order + names
    return s


def enum_extra_registrations(maxn):
    """T3, bounded-exhaustive: every small document over portfolio models (flat
    ones, hierarchies, a lone abstract class, enums and string-likes in unions)
    x 4 kinds of additionally registered classes, registered first or last."""
    from yv import portfolio
    from yv.props import c02

    def gen_(shard, nshards):
        i = 0
        for name in ('AL', 'P', 'U2', 'AB', 'D', 'E', 'EU', 'L'):
            keys = portfolio.KEYS[name]
            scals = portfolio.SCALS_BY.get(name, portfolio.SCALS)
            for n in range(1, maxn + 1):
                for text in c02.small_trees(n, tuple(keys), tuple(scals)):
                    for variant, first in ((1, False), (2, True), (4, False), (7, True)):
                        if i % nshards == shard:
                            yield {'portfolio': name, 'T': 'T3', 'text': text, 'extra_classes': 1,
                                   'first': first, 'variant': variant, 'src': 'enum'}
                        i += 1
    return gen_


def outcome(spec, text):
    m = models.build(spec)
    try:
        return ('ok', m.load(text))
    except (yatiml.RecognitionError, yaml.YAMLError) as e:
        return ('rej', type(e).__name__ + ': ' + str(e).strip().replace('\n', ' | ')[:300])
    except Exception as e:
        return ('exc', type(e).__name__ + ': ' + str(e))


def enum_restyled(maxn):
    """Every small tagged document over the hierarchy portfolio models x two
    other styles (T2, bounded-exhaustive)."""
    from yv import portfolio
    from yv.props import c02, c03

    def gen_(shard, nshards):
        i = 0
        for name in c03.HIER:
            spec = portfolio.MODELS[name]
            tags = [''] + ['!%s ' % c['name'] for c in spec['classes']] + ['!Unknown ']
            keys = portfolio.KEYS[name]
            scals = portfolio.SCALS_BY.get(name, portfolio.SCALS)
            for n in range(1, maxn + 1):
                for text in c02.small_trees(n, tuple(keys), tuple(scals)):
                    if not text.startswith('{') and name != 'L':
                        continue
                    for tg in tags:
                        for style in ('block', 'dq'):
                            if i % nshards == shard:
                                yield {'portfolio': name, 'T': 'T2', 'text': tg + text,
                                       'style': style, 'src': 'enum'}
                            i += 1
    return gen_


def check(case, ctx):
    if 'portfolio' in case:
        from yv import portfolio
        case = dict(case, model=portfolio.MODELS[case['portfolio']])
    spec, tk, text = case['model'], case['T'], case['text']
    spec2, text2 = spec, text
    if tk == 'T1':
        text2 = case['text2']
    elif tk == 'T2':
        try:
            node = T.compose_raw(text)
        except yaml.YAMLError:
            ctx.count('T2_unparseable')
            return
        if node is None:
            return
        try:
            before = T.plain(node)
            text2 = T.restyle(node, case['style'])
            if T.plain(T.compose_raw(text2)) != before:
                ctx.count('T2_precondition_failed_' + case['style'])
                return
        except (ValueError, yaml.YAMLError):
            ctx.count('T2_precondition_failed_' + case['style'])
            return
        except Exception:
            ctx.count('T2_restyle_error')
            return
    elif tk == 'T3':
        spec2 = t3(spec, case['extra_classes'], case['first'], case.get('variant', 0))
    elif tk == 'T4':
        spec2 = t4(spec, case['rot'])
    elif tk == 'T5':
        spec2 = t5(spec, case['pos'])
    changed = spec2 != spec or text2 != text
    a = outcome(spec, text)
    b = outcome(spec2, text2)
    ctx.count('%s_%s_%s' % (tk, a[0], 'changed' if changed else 'identity'))
    if a[0] == 'exc' and b[0] == 'exc':
        ctx.count('other_exception_both')
        return
    if a[0] == 'exc' or b[0] == 'exc':
        label = tk + (':' + case['style'] if tk == 'T2' else '')
        ctx.finding('invariance', label + ':exception_on_one_side',
                    'original: %s %s\n  transformed: %s %s\n  text: %r\n  transformed text: %r\n  model: %s'
                    % (a[0], a[1] if a[0] != 'ok' else canon(a[1]), b[0],
                       b[1] if b[0] != 'ok' else canon(b[1]), text, text2, spec))
        return
    if changed:
        ctx.nontriv([spec, text, tk, case.get('style'), case.get('rot'), case.get('pos'),
                     case.get('extra_classes'), text2 if tk == 'T1' else None])
        ctx.sample('%s_%s' % (tk, a[0]), {'doc_type': spec['doc_type'], 'text': text,
                                          'transformed_text': text2 if text2 != text else None,
                                          'transformed_doc_type': spec2['doc_type'] if spec2 != spec else None,
                                          'outcome': a[0]})
    label = tk + (':' + case['style'] if tk == 'T2' else '')
    if a[0] != b[0]:
        ctx.finding('invariance', label + ':accept_vs_reject',
                    'original: %s %s\n  transformed: %s %s\n  text: %r\n  transformed text: %r\n  model: %s\n  transformed model: %s'
                    % (a[0], canon(a[1]) if a[0] == 'ok' else a[1], b[0],
                       canon(b[1]) if b[0] == 'ok' else b[1], text, text2, spec,
                       spec2 if spec2 != spec else '(same)'))
        return
    if a[0] == 'ok':
        va, vb = a[1], b[1]
        if spec2 != spec:
            # classes of the two models are distinct Python classes: compare canonically
            same = canon(va) == canon(vb)
        else:
            same = strict_eq(va, vb, unordered_maps=(tk == 'T1'))
        if not same:
            ctx.finding('invariance', label + ':values_differ',
                        'original: %s\n  transformed: %s\n  text: %r\n  transformed text: %r\n  model: %s\n  transformed model: %s'
                        % (canon(va), canon(vb), text, text2, spec,
                           spec2 if spec2 != spec else '(same)'))


def phases(tier):
    n = 400 if tier != 'thorough' else 6000
    from yv.runner import EnumPhase
    k = 3 if tier != 'thorough' else 4
    return [HypPhase('transformations', cases(), n),
            EnumPhase('small_tagged_documents_restyled', enum_restyled(k),
                      'every mapping document of <=%d nodes over 7 hierarchy portfolio models x '
                      'every class tag on the root x block and double-quoted re-serialisation' % k),
            EnumPhase('small_documents_extra_registrations', enum_extra_registrations(k),
                      'T3: every document of <=%d nodes over 8 portfolio models (a lone abstract '
                      'class, flat models, hierarchies, enums / string-likes in unions) x 4 sets of '
                      'additionally registered classes (base/derived pair, abstract base + child, '
                      'string-like + hooked class, all of them), registered first or last' % k)]
