"""C10 - seasoning and recognition hooks run once, own class only, bases first.

Oracle: the hook trace recorded by the generated classes (hook, class whose
body defines it, cls argument, digest of the node seen) is compared with the
sequence the rule predicts for the generated value: loading = pre-order over
objects, for each object the savorize hooks of its registered chain that define
one in their own body, base first, each once, cls = defining class; dumping =
post-order with the sweeten hooks. _yatiml_recognize entries always pair a
class with itself; hooks of unregistered mix-ins/ancestors, siblings and
descendants never run; effects prove the position in the pipeline.
"""
import copy

import yaml
from hypothesis import strategies as st

import yatiml

from yv import models
from yv.common import canon, exc_signature
from yv.runner import HypPhase

ID = 'C10'
RULE = ('Hypothesis draws a single-inheritance chain K0..Kd-1 (depth 1-4, all '
        'registered; Ki requires p0..pi), optionally an unregistered topmost '
        'ancestor, an unregistered mix-in attached to one class and a '
        'registered sibling branch, with _yatiml_recognize/_yatiml_savorize/'
        '_yatiml_sweeten defined on arbitrary subsets of all these classes; a '
        'position (document, list item, dict value, attribute, union member, '
        'nested child attribute) and a value (1-3 objects of arbitrary chain '
        'classes, optionally nested through a child attribute, optionally '
        'spelling an int as a word that only a savorize hook converts, '
        'optionally carrying a key that makes a savorize hook raise '
        'SeasoningError); the value is loaded from its YAML text and dumped. '
        'Non-trivial: chain depth >=2, >=2 hooks defined, object at a nested '
        'position; distinct = distinct (model, value)')
ASSUMPTIONS = [
    'diamonds and unregistered intermediates are outside the property\'s '
    'quantifier and are not generated',
    '_yatiml_recognize may be consulted any number of times (recognition is a '
    'search); only who is consulted with which cls is checked',
]
BUDGET_S = {'quick': 240, 'thorough': 2400}


@st.composite
def cases(draw):
    d = draw(st.integers(1, 4))
    top = draw(st.booleans())
    mix_at = draw(st.one_of(st.none(), st.integers(0, d - 1)))
    sib_at = draw(st.one_of(st.none(), st.integers(0, d - 1)))
    names = ['K%d' % i for i in range(d)]
    position = draw(st.sampled_from(['doc', 'list', 'dict', 'attr', 'attr', 'union', 'optlist',
                                     'aliaslist']))
    all_names = names + (['Top'] if top else []) + (['Mix'] if mix_at is not None else []) + \
        (['Sib'] if sib_at is not None else []) + (['W'] if position == 'attr' else [])
    hooks = {n: {'savorize': draw(st.booleans()), 'sweeten': draw(st.booleans()),
                 'recognize': draw(st.integers(0, 2)) == 0} for n in all_names}
    word_cls = draw(st.one_of(st.none(), st.integers(0, d - 1)))
    raise_cls = draw(st.one_of(st.none(), st.integers(0, d - 1)))

    def obj(depth=0):
        i = draw(st.integers(0, d - 1))
        o = {'cls': i, 'vals': [draw(st.integers(0, 9)) for _ in range(i + 1)]}
        if word_cls is not None and i == word_cls and draw(st.booleans()):
            o['word'] = True
        if raise_cls is not None and draw(st.integers(0, 7)) == 0:
            o['forbidden'] = True
        return o
    n = 1 if position in ('doc', 'union') else draw(st.integers(1, 2 if position == 'attr' else 3))
    # a class whose own _yatiml_recognize describes only its own format (a
    # marker key that its savorize removes): it rejects its subclasses' documents
    strict_at = draw(st.one_of(st.none(), st.none(), st.integers(0, d - 1)))
    # the unregistered mix-in / topmost ancestor comes from "another module" and has
    # the same __name__ as a registered class of the chain
    alias = draw(st.one_of(st.none(), st.none(), st.integers(0, d - 1)))
    objs = [obj() for _ in range(n)]
    if position == 'aliaslist':
        # [&o obj, &c [*o], *c]: one object written once and reached three times,
        # through an alias inside a collection that is itself aliased - three
        # nodes, each loaded (and seasoned) exactly once
        objs = [objs[0]] * 3
    return {'depth': d, 'top': top, 'mix_at': mix_at, 'sib_at': sib_at, 'hooks': hooks,
            'word_cls': word_cls, 'raise_cls': raise_cls, 'position': position,
            'strict_at': strict_at, 'alias': alias,
            'objs': objs,
            'order_rev': draw(st.booleans()), 'mix_first': draw(st.booleans())}


def build_spec(case):
    d = case['depth']
    hooks = case['hooks']
    classes = []

    def hook_fields(name, idx=None):
        h = hooks[name]
        out = {}
        strict = case.get('strict_at')
        if h['savorize'] or (idx is not None and idx in (case['word_cls'], case['raise_cls'], strict)):
            ops = []
            if idx is not None and idx == strict:
                ops.append(['remove', 'tag%d' % idx])
            if idx is not None and idx == case['word_cls']:
                ops.append(['word_to_int', 'p0', [['seven', 7]]])
            if idx is not None and idx == case['raise_cls']:
                ops.append(['raise_if_has', 'forbidden'])
            out['savorize'] = ops
        if h['sweeten']:
            out['sweeten'] = []
        if h['recognize'] or (idx is not None and idx in (case['word_cls'], strict)):
            if idx is None:
                out['recognize'] = 'permissive'
            else:
                out['recognize'] = [['mapping']] + [['attr', 'p%d' % j] for j in range(idx + 1)]
                if idx == strict:
                    out['recognize'].append(['attr', 'tag%d' % idx])
        return out
    al = case.get('alias')
    if case['top']:
        classes.append(dict({'name': 'Top', 'kind': 'obj', 'bases': [], 'params': [], 'reg': False},
                            **hook_fields('Top')))
        if al is not None and case['mix_at'] is None:
            classes[-1]['py_name'] = 'K%d' % al
    if case['mix_at'] is not None:
        classes.append(dict({'name': 'Mix', 'kind': 'obj', 'bases': [], 'params': [], 'reg': False},
                            **hook_fields('Mix')))
        if al is not None:
            classes[-1]['py_name'] = 'K%d' % al
    for i in range(d):
        bases = ['K%d' % (i - 1)] if i else (['Top'] if case['top'] else [])
        if case['mix_at'] == i:
            # the unregistered mix-in may be listed before or after the chain base
            bases = (['Mix'] + bases) if case.get('mix_first') else (bases + ['Mix'])
        c = {'name': 'K%d' % i, 'kind': 'obj', 'bases': bases,
             'params': [{'name': 'p%d' % j, 'type': 'int'} for j in range(i + 1)]}
        if i == case['raise_cls']:
            pass
        c.update(hook_fields('K%d' % i, i))
        classes.append(c)
    if case['sib_at'] is not None:
        j = case['sib_at']
        c = {'name': 'Sib', 'kind': 'obj', 'bases': ['K%d' % j],
             'params': [{'name': 'p%d' % k, 'type': 'int'} for k in range(j + 1)]
             + [{'name': 'q', 'type': 'int'}]}
        hf = hook_fields('Sib')
        if 'recognize' in hf:
            hf['recognize'] = [['mapping'], ['attr', 'q']]
        c.update(hf)
        classes.append(c)
    pos = case['position']
    k0 = ['ref', 'K0']
    if pos == 'attr':
        w = {'name': 'W', 'kind': 'obj', 'bases': [], 'params': [
            {'name': 'x', 'type': k0}, {'name': 'y', 'type': ['opt', k0], 'default': ['none']}]}
        hf = hook_fields('W')
        hf.pop('recognize', None)
        w.update(hf)
        classes.append(w)
    doc_type = {'doc': k0, 'list': ['list', k0], 'dict': ['dict', 'str', k0],
                'attr': ['ref', 'W'], 'union': ['union', 'int', k0, ['list', 'str']],
                'optlist': ['list', ['opt', k0]],
                'aliaslist': ['list', ['union', k0, ['list', k0]]]}[pos]
    order = [c['name'] for c in classes]
    if case['order_rev']:
        order = order[::-1]
    return {'classes': classes, 'doc_type': doc_type, 'order': order}


def obj_text(o, word_ok=True, strict=None):
    parts = []
    if strict is not None and o['cls'] == strict:
        parts.append('tag%d: 1' % strict)
    for j, v in enumerate(o['vals']):
        parts.append('p%d: %s' % (j, 'seven' if (j == 0 and o.get('word')) else v))
    if o.get('forbidden'):
        parts.append('forbidden: 1')
    return '{' + ', '.join(parts) + '}'


def doc_text(case):
    pos = case['position']
    ts = [obj_text(o, strict=case.get('strict_at')) for o in case['objs']]
    if pos in ('doc', 'union'):
        return ts[0]
    if pos == 'aliaslist':
        return '[&o %s, &c [*o], *c]' % ts[0]
    if pos in ('list', 'optlist'):
        return '[' + ', '.join(ts) + ']'
    if pos == 'dict':
        return '{' + ', '.join('k%d: %s' % (i, t) for i, t in enumerate(ts)) + '}'
    return '{' + ', '.join('%s: %s' % (k, t) for k, t in zip('xy', ts)) + '}'


def chain(case, i, hook):
    """Classes of the registered chain of Ki that define `hook` in their body
    (or get one through the word/raise ops), base first."""
    out = []
    for j in range(i + 1):
        n = 'K%d' % j
        h = case['hooks'][n]
        defined = h[hook]
        if hook == 'savorize' and j in (case['word_cls'], case['raise_cls'], case.get('strict_at')):
            defined = True
        if defined:
            out.append(n)
    return out


def expected_load(case):
    seq = []
    if case['position'] == 'attr' and case['hooks']['W']['savorize']:
        seq.append('W')
    for o in case['objs']:
        seq.extend(chain(case, o['cls'], 'savorize'))
    return seq


def expected_dump(case):
    seq = []
    for o in case['objs']:
        seq.extend(chain(case, o['cls'], 'sweeten'))
    if case['position'] == 'attr' and case['hooks']['W']['sweeten']:
        seq.append('W')
    return seq


def any_forbidden(o):
    return bool(o.get('forbidden'))


def raises_expected(case, o):
    r = case['raise_cls']
    return bool(o.get('forbidden')) and r is not None and o['cls'] >= r


def value_objs(v, out):
    from yv.common import is_gen_obj
    if is_gen_obj(v):
        out.append(v)
        for n in v._yv_params:
            value_objs(getattr(v, n, None), out)
    elif isinstance(v, list):
        for x in v:
            value_objs(x, out)
    elif isinstance(v, dict):
        for x in v.values():
            value_objs(x, out)
    return out


@st.composite
def strlike_cases(draw):
    d = draw(st.integers(1, 2))
    kind = draw(st.sampled_from(['userstring', 'strsub', 'ystring', 'enum']))
    if kind == 'enum':
        d = 1
    mix_at = draw(st.one_of(st.none(), st.integers(0, d - 1)))
    names = ['SL%d' % i for i in range(d)] + (['SMix'] if mix_at is not None else [])
    hooks = {n: {'savorize': draw(st.booleans()), 'sweeten': draw(st.booleans())} for n in names}
    return {'family': 'strlike', 'kind': kind, 'depth': d, 'mix_at': mix_at,
            'mix_first': draw(st.booleans()), 'hooks': hooks,
            'position': draw(st.sampled_from(['doc', 'list', 'dictvalue', 'attr'] + (
                ['dictkey', 'dictkey'] if kind != 'enum' else []))),
            'which': [draw(st.integers(0, d - 1)) for _ in range(draw(st.integers(1, 3)))],
            'order_rev': draw(st.booleans())}


def check_strlike(case, ctx):
    d, kind = case['depth'], case['kind']
    classes = []
    if case['mix_at'] is not None:
        c = {'name': 'SMix', 'kind': 'mixin', 'reg': False}
        if case['hooks']['SMix']['savorize']:
            c['savorize'] = []
        if case['hooks']['SMix']['sweeten']:
            c['sweeten'] = []
        classes.append(c)
    for i in range(d):
        n = 'SL%d' % i
        c = {'name': n, 'kind': kind, 'bases': ['SL%d' % (i - 1)] if i else []}
        if kind == 'enum':
            c['members'] = ['red', 'green']
        if case['mix_at'] == i:
            c['mixins'] = ['SMix']
            c['mix_first'] = case['mix_first']
        if case['hooks'][n]['savorize']:
            c['savorize'] = []
        if case['hooks'][n]['sweeten']:
            c['sweeten'] = []
        classes.append(c)
    pos = case['position']
    which = case['which'] if pos in ('list', 'dictvalue', 'dictkey') else case['which'][:1]
    t0 = ['ref', 'SL0']
    if pos == 'attr':
        classes.append({'name': 'H', 'kind': 'obj', 'bases': [], 'params': [{'name': 'x', 'type': t0}]})
    doc_type = {'doc': t0, 'list': ['list', t0], 'dictvalue': ['dict', 'str', t0],
                'dictkey': ['dict', t0, 'int'], 'attr': ['ref', 'H']}[pos]
    order = [c['name'] for c in classes]
    spec = {'classes': classes, 'doc_type': doc_type, 'order': order[::-1] if case['order_rev'] else order}
    m = models.build(spec)
    desc = lambda: 'case: %s\n  classes:\n%s' % (case, m.source)
    # values: SL_i objects; for a chain the class is chosen by tag-free
    # recognition = most derived, so all values are of the deepest class when
    # depth 2 (SL1 matches every string) - use that
    deepest = 'SL%d' % (d - 1)
    cls = m.classes[deepest]
    mk = (lambda k: cls['red' if k % 2 == 0 else 'green']) if kind == 'enum' else (lambda k: cls('v%d' % k))
    vals = [mk(k) for k in range(len(which))]
    value = {'doc': vals[0], 'list': vals, 'dictvalue': {'k%d' % k: v for k, v in enumerate(vals)},
             'dictkey': {v: k for k, v in enumerate(vals)} if pos == 'dictkey' else None,
             'attr': None}[pos]
    if pos == 'attr':
        value = m.classes['H'](vals[0])
    ctx.count('strlike_' + kind)

    def chain_of(hook):
        return ['SL%d' % j for j in range(d) if case['hooks']['SL%d' % j][hook]]
    m.reset()
    try:
        text = m.dumps(value)
    except Exception as e:
        ctx.finding('dump', 'strlike_raises:' + exc_signature(e),
                    'dumps raised %s: %s\n  %s' % (type(e).__name__, e, desc()))
        return
    sw = [e[1] for e in m.log if e[0] == 'sweeten']
    want = chain_of('sweeten') * len(vals)
    ctx.nontriv(case)
    ctx.sample('strlike_%s_%s' % (kind, pos), {'hooks': case['hooks'], 'mix_at': case['mix_at'],
                                               'yaml': text, 'sweeten_trace': sw})
    if sw != want:
        ctx.finding('sweeten', 'strlike:' + _diff_kind([(a, a) for a in sw], [(a, a) for a in want]),
                    'sweeten hooks called for %d %s object(s) (defining classes): %s\n  by the rule: %s\n  %s'
                    % (len(vals), deepest, sw, want, desc()))
        return
    m.reset()
    try:
        back = m.load(text)
    except Exception as e:
        ctx.finding('load', 'strlike_load_raises:' + type(e).__name__,
                    'loading the dump raised %s: %s\n  text: %r\n  %s' % (type(e).__name__, e, text, desc()))
        return
    sav = [e[1] for e in m.log if e[0] == 'savorize']
    want = chain_of('savorize') * len(vals)
    if sav != want:
        ctx.finding('savorize', 'strlike:' + _diff_kind([(a, a) for a in sav], [(a, a) for a in want]),
                    'savorize hooks called (defining classes): %s\n  by the rule: %s\n  text: %r\n  %s'
                    % (sav, want, text, desc()))


def check(case, ctx):
    if case.get('family') == 'strlike':
        return check_strlike(case, ctx)
    spec = build_spec(case)
    m = models.build(spec)
    text = doc_text(case)
    nhooks = sum(1 for h in case['hooks'].values() for k in h.values() if k)
    nested = case['position'] != 'doc'
    if case['depth'] >= 2 and nhooks >= 2 and nested:
        ctx.nontriv(case)
    desc = lambda: 'text: %s\n  case: %s\n  classes:\n%s' % (text, case, m.source)
    unreg = {'Top', 'Mix'}
    # unknown 'forbidden' key without a raising class in the chain is simply an
    # unknown attribute -> RecognitionError; with one, SeasoningError must surface as
    # RecognitionError as well. Either way: RecognitionError expected.
    expect_fail = any(any_forbidden(o) for o in case['objs'])
    m.reset()
    try:
        value = m.load(text)
        failed = None
    except yatiml.RecognitionError as e:
        failed = e
    except Exception as e:
        ctx.finding('load', 'raises:' + exc_signature(e),
                    'load raised %s: %s\n  %s' % (type(e).__name__, e, desc()))
        return
    log = list(m.log)
    ctx.count('load_' + ('rejected' if failed else 'ok'))
    # recognise/savorize/sweeten entries: who was called with which cls
    for hook, defined, cls, dig in [e for e in log if e[0] in ('recognize', 'savorize', 'sweeten')]:
        if defined in unreg:
            ctx.finding('own_class', 'unregistered_hook_called:' + hook,
                        '%s of the unregistered class %s was called (cls=%s)\n  %s'
                        % (hook, defined, cls, desc()))
            return
        if defined != cls and hook == 'recognize':
            # (for savorize/sweeten the sequence of defining classes is compared below)
            ctx.finding('own_class', 'hook_called_for_other_class:' + hook,
                        '%s defined in %s was consulted with cls=%s\n  %s' % (hook, defined, cls, desc()))
            return
    if expect_fail:
        if failed is None:
            ctx.finding('seasoning_error', 'forbidden_key_accepted',
                        'a document with an unknown/forbidden key loaded: %s\n  %s' % (canon(value), desc()))
        else:
            ctx.count('seasoning_or_unknown_key_rejected')
            if any(raises_expected(case, o) for o in case['objs']):
                ctx.count('seasoning_error_surfaced_as_recognition_error')
        return
    if failed is not None:
        ctx.finding('load', 'valid_document_rejected',
                    'load raised RecognitionError: %s\n  %s'
                    % (str(failed).strip().replace('\n', ' | ')[:400], desc()))
        return
    sav = [(e[1], e[2]) for e in log if e[0] == 'savorize']
    want = [(n, n) for n in expected_load(case)]
    ctx.sample('load_%s_depth%d' % (case['position'], case['depth']),
               {'text': text, 'hooks': {k: [h for h, on in v.items() if on] for k, v in case['hooks'].items()},
                'savorize_trace': [a for a, _ in sav]})
    if sav != want:
        ctx.finding('savorize', _diff_kind(sav, want),
                    'savorize calls (defined in, cls): %s\n  expected: %s\n  %s' % (sav, want, desc()))
        return
    # position in the pipeline: all savorize entries precede the first __init__
    idx_init = [i for i, e in enumerate(log) if e[0] == 'init']
    idx_sav = [i for i, e in enumerate(log) if e[0] == 'savorize']
    if idx_init and idx_sav and max(idx_sav) > min(idx_init):
        ctx.finding('pipeline', 'savorize_after_construction',
                    'a savorize hook ran after a constructor\n  log: %s\n  %s' % (log, desc()))
        return
    # the savorize hooks of an object run only after the recognised class's
    # own _yatiml_recognize (if it defines one) was consulted
    pos_ = 0
    if case['position'] == 'attr' and case['hooks']['W']['savorize']:
        pos_ = 1
    for o in case['objs']:
        ch = chain(case, o['cls'], 'savorize')
        kn = 'K%d' % o['cls']
        has_rec = case['hooks'][kn]['recognize'] or o['cls'] in (case['word_cls'], case.get('strict_at'))
        if ch and has_rec:
            first = idx_sav[pos_]
            if not any(x[0] == 'recognize' and x[1] == kn for x in log[:first]):
                ctx.finding('pipeline', 'savorize_before_recognition',
                            'savorize hooks for an object of %s ran before its _yatiml_recognize was consulted\n  log: %s\n  %s'
                            % (kn, log, desc()))
                return
        pos_ += len(ch)
    # effects: word converted before the type check / constructor
    objs = value_objs(value, [])
    flat = list(case['objs'])
    kobjs = [x for x in objs if type(x).__name__ != 'W']
    if len(kobjs) != len(flat):
        ctx.finding('load', 'object_count', 'loaded %d objects, expected %d\n  %s'
                    % (len(kobjs), len(flat), desc()))
        return
    for got, o in zip(kobjs, flat):
        if type(got).__name__ != 'K%d' % o['cls']:
            ctx.finding('load', 'wrong_class', 'loaded %s for an object of K%d\n  %s'
                        % (type(got).__name__, o['cls'], desc()))
            return
        p0 = 7 if o.get('word') else o['vals'][0]
        if got.p0 != p0 or type(got.p0) is not int:
            ctx.finding('pipeline', 'savorize_effect_lost',
                        'p0 = %r, expected %r\n  %s' % (got.p0, p0, desc()))
            return
    # ---- dump --------------------------------------------------------------
    m.reset()
    try:
        out = m.dumps(value)
    except Exception as e:
        ctx.finding('dump', 'raises:' + exc_signature(e),
                    'dumps raised %s: %s\n  %s' % (type(e).__name__, e, desc()))
        return
    dlog = list(m.log)
    for hook, defined, cls, dig in [e for e in dlog if e[0] in ('recognize', 'savorize', 'sweeten')]:
        if defined in unreg:
            ctx.finding('own_class', 'dump_hook_called_for_other_class:' + hook,
                        '%s defined in %s was called with cls=%s while dumping\n  %s'
                        % (hook, defined, cls, desc()))
            return
    sw = [(e[1], e[2]) for e in dlog if e[0] == 'sweeten']
    want = [(n, n) for n in expected_dump(case)]
    if sw != want:
        ctx.finding('sweeten', _diff_kind(sw, want),
                    'sweeten calls (defined in, cls): %s\n  expected: %s\n  %s' % (sw, want, desc()))
        return
    # a second dump function that knows only the classes from Kj upwards: a
    # base registered elsewhere is not a registered ancestor *for this function*
    lo = min(o['cls'] for o in case['objs'])
    if lo >= 1 and case['position'] != 'attr':
        j = lo
        part = [m.classes['K%d' % i] for i in range(j, case['depth'])]
        m.reset()
        try:
            yatiml.dumps_function(*part)(value)
        except Exception as e:
            ctx.finding('dump', 'partial_registration_raises:' + exc_signature(e),
                        'dumps_function(%s) raised %s: %s\n  %s'
                        % ([c.__name__ for c in part], type(e).__name__, e, desc()))
            return
        sw2 = [e[1] for e in m.log if e[0] == 'sweeten']
        want2 = []
        for o in case['objs']:
            want2.extend(n for n in chain(case, o['cls'], 'sweeten') if int(n[1:]) >= j)
        ctx.count('partial_registration_dumps')
        if sw2 != want2:
            ctx.finding('sweeten', 'partial_registration:' + _diff_kind([(a, a) for a in sw2], [(a, a) for a in want2]),
                        'dumps_function registering only %s: sweeten calls %s, by the rule %s '
                        '(classes below K%d are not registered with this function)\n  %s'
                        % ([c.__name__ for c in part], sw2, want2, j, desc()))
            return
    for e in dlog:
        if e[0] == 'sweeten' and not e[3].startswith('m{s:str:p0=' if e[1] != 'W' else 'm{s:str:x='):
            ctx.finding('sweeten', 'node_not_built_from_attributes',
                        'sweeten of %s saw the node %s\n  %s' % (e[1], e[3], desc()))
            return


def _diff_kind(got, want):
    gs, ws = [a for a, _ in got], [a for a, _ in want]
    if sorted(gs) == sorted(ws):
        return 'wrong_order'
    if len(gs) > len(ws):
        extra = [x for x in gs if gs.count(x) > ws.count(x)]
        return 'extra_call:' + (extra[0][:1] + '*' if extra else '?')
    return 'missing_call'


def phases(tier):
    n = 300 if tier != 'thorough' else 5000
    return [HypPhase('hook_traces', cases(), n),
            HypPhase('stringlike_and_enum_hook_traces', strlike_cases(), max(40, n // 4))]
