"""C17 - recognition errors point at the offending place.

Weak claim (arbitrary models and failing documents): every RecognitionError
for a parseable document cites at least one position, and every cited position
lies inside the document. Strong claim (hierarchy-free, hook-free models, valid
block-style documents with one corruption): some cited line is the line of the
corrupted node, of its key, or of the start of the enclosing mapping; unknown,
missing and misspelt keys are named.
"""
import copy
import re

import yaml
from hypothesis import strategies as st

import yatiml

from yv import gen, models, tree as T
from yv.runner import EnumPhase, HypPhase

ID = 'C17'
RULE = ('(weak) Hypothesis draws an arbitrary model (hierarchies, abstract '
        'classes, hooks, extras, unions) and a failing document (mutated, '
        'tagged, random, re-serialised in block or flow style). (strong) a '
        'hierarchy-free, hook-free model, a valid document of its type '
        'rendered in block style with >=2 lines, and one corruption at any '
        'depth: a scalar replaced by one of another type, a misspelt key, a '
        'dropped required key, an added unknown key, an unknown enum member. '
        'Non-trivial: (weak) the document has >=2 lines; (strong) the '
        'corruption is at depth >=1; distinct = distinct (model, text)')
ASSUMPTIONS = [
    'an empty document counts as one empty line (the error for it cites line 1, column 1)',
    'corruptions that leave the document valid (Any/Union positions, optional '
    'keys, classes with _yatiml_extra) are counted and skipped',
    'the strong claim is checked on models without hierarchies and hooks; '
    'Unions are allowed',
    'models are supported ones: every class an annotation refers to is '
    'registered (otherwise yatiml reports a position-less "is it registered?" '
    'programmer error)',
]
BUDGET_S = {'quick': 240, 'thorough': 2400}

WEAK_FEATS = ('hier', 'abstract', 'extra', 'enum', 'strlike', 'any',
              'untyped', 'date', 'path', 'buf', 'abstract_containers', 'defaults',
              'multi', 'hooks', 'seasoned', 'discriminator', 'raises')
STRONG_FEATS = ('extra', 'enum', 'strlike', 'any', 'date', 'path', 'defaults',
                'abstract_containers', 'buf')
POS = re.compile(r'line (\d+), column (\d+)')


@st.composite
def weak_cases(draw):
    spec = draw(gen.models(WEAK_FEATS))
    t, origin = draw(gen.doc_for(spec, tags=draw(st.integers(0, 2)) == 0,
                                  hard=draw(st.integers(0, 5)) == 0))
    return {'kind': 'weak', 'model': spec, 'text': T.render_flow(t),
            'style': draw(st.sampled_from(['flow', 'block', 'block', 'narrow', 'markers', 'literal'])),
            'src': origin.split(':')[0]}


def sites(v, spec, path=()):
    """(kind, tree path, info) for every corruption site of a projected value."""
    by = gen.classes_by_name(spec)
    k = v[0]
    if k == 'obj':
        c = by[v[1]]
        req = {p['name'] for p in c.get('params', []) if 'default' not in p}
        if not c.get('extra'):
            yield ('add_key', path, None)
        for i, (n, x) in enumerate(v[2]):
            yield ('misspell', path + (1, i, 0), n)
            if n in req:
                yield ('drop', path + (1, i), n)
            yield from sites(x, spec, path + (1, i, 1))
    elif k == 'list':
        for i, x in enumerate(v[1]):
            yield from sites(x, spec, path + (1, i))
    elif k in ('dict', 'odict'):
        for i, (a, b) in enumerate(v[1]):
            yield from sites(b, spec, path + (1, i, 1))
    elif k == 'enum':
        yield ('enum', path, v[2])
    elif k in ('str', 'int', 'float', 'bool', 'none', 'date', 'datetime', 'path', 'strlike'):
        yield ('scalar', path, k)


@st.composite
def strong_cases(draw):
    spec = copy.deepcopy(draw(gen.models(STRONG_FEATS, max_classes=4)))
    for c in spec['classes']:
        if c.get('kind') == 'enum' and draw(st.booleans()):
            # an enum whose _yatiml_savorize rewrites the scalar (set_value)
            gen.case_hook_enum(spec, c['name'])
    objs = [c['name'] for c in spec['classes'] if c.get('kind', 'obj') == 'obj']
    if objs and draw(st.integers(0, 4)) > 0:
        big = [c['name'] for c in spec['classes'] if c['name'] in objs and len(c['params']) >= 2]
        spec = dict(spec, doc_type=['ref', draw(st.sampled_from(big or objs))])
    if draw(st.integers(0, 3)) == 0:
        # a class with many attributes (messages are worded differently from 8 up)
        n = draw(st.integers(6, 11))
        ptypes = ['int', 'str', 'float', 'bool', ['list', 'int'], ['opt', 'str']]
        wide = {'name': 'Wide', 'kind': 'obj', 'bases': [], 'params': [
            {'name': 'w%d_attr' % i, 'type': draw(st.sampled_from(ptypes))} for i in range(n)]}
        nopt = draw(st.integers(0, 2))
        for p in wide['params'][n - nopt:]:
            p['type'] = 'int'
            p['default'] = ['int', 0]
        spec = dict(spec, classes=spec['classes'] + [wide], order=list(spec['order']) + ['Wide'],
                    doc_type=draw(st.sampled_from([['ref', 'Wide'], ['list', ['ref', 'Wide']],
                                                   ['dict', 'str', ['ref', 'Wide']]])))
    elif draw(st.integers(0, 5)) == 0:
        # a Union of unrelated classes that share attribute names, one of them
        # typed as different nested classes: every alternative complains, at
        # different depths
        i1 = {'name': 'In1', 'kind': 'obj', 'bases': [], 'params': [
            {'name': 'p', 'type': 'int'}, {'name': 'r', 'type': 'str', 'default': ['str', 'x']}]}
        i2 = {'name': 'In2', 'kind': 'obj', 'bases': [], 'params': [
            {'name': 'q', 'type': 'str'}, {'name': 'gid', 'type': 'int'}]}
        x = {'name': 'UX', 'kind': 'obj', 'bases': [], 'params': [
            {'name': 'name', 'type': 'str'}, {'name': 'meta', 'type': ['ref', 'In1']},
            {'name': 'mode', 'type': 'int'}]}
        y = {'name': 'UY', 'kind': 'obj', 'bases': [], 'params': [
            {'name': 'name', 'type': 'str'}, {'name': 'meta', 'type': ['ref', 'In2']},
            {'name': 'size', 'type': 'int'}]}
        u = ['union', ['ref', 'UX'], ['ref', 'UY']]
        spec = {'classes': [i1, i2, x, y], 'order': ['In1', 'In2', 'UX', 'UY'],
                'doc_type': draw(st.sampled_from([u, ['list', u], ['dict', 'str', u]]))}
    elif draw(st.integers(0, 5)) == 0:
        # scalar Unions/Optionals whose valid values make some alternatives fail
        # before the corrupted node is reached
        sc = {'name': 'SC', 'kind': 'obj', 'bases': [], 'params': [
            {'name': 'u', 'type': ['union', 'int', 'str']}, {'name': 'o', 'type': ['opt', 'int']},
            {'name': 'w', 'type': ['union', 'float', 'bool', 'none']},
            {'name': 'n', 'type': 'int'}, {'name': 'm', 'type': 'int'}, {'name': 't', 'type': 'str'},
            {'name': 'f', 'type': 'float'}]}
        spec = {'classes': [sc], 'order': ['SC'],
                'doc_type': draw(st.sampled_from([['ref', 'SC'], ['list', ['ref', 'SC']]]))}
    v = None
    if draw(st.integers(0, 6)) == 0:
        # several objects of a class whose problems are only found at
        # construction time (the documented permissive `_yatiml_recognize`: pass),
        # as items directly below the document root: PyYAML finishes constructing
        # them only after all of them have been started
        pi = {'name': 'PI', 'kind': 'obj', 'bases': [], 'recognize': 'permissive', 'params': [
            {'name': 'a', 'type': 'int'}, {'name': 'b', 'type': 'str'},
            {'name': 'c', 'type': 'int', 'default': ['int', 0]}]}
        n = draw(st.integers(2, 4))
        objs_ = [['obj', 'PI', [['a', ['int', i]], ['b', ['str', 's%d' % i]], ['c', ['int', 1]]], None]
                 for i in range(n)]
        if draw(st.booleans()):
            spec = {'classes': [pi], 'order': ['PI'], 'doc_type': ['list', ['ref', 'PI']]}
            v = ['list', objs_]
        else:
            spec = {'classes': [pi], 'order': ['PI'], 'doc_type': ['dict', 'str', ['ref', 'PI']]}
            v = ['dict', [[['str', 'k%d' % i], o] for i, o in enumerate(objs_)]]
    if v is None:
        v = draw(gen.vspec_for(spec, spec['doc_type'], hard=False, omit_defaults=False))
    if v is None:
        return {'kind': 'strong', 'model': spec, 'tree': None}
    ss = list(sites(v, spec))
    if not ss:
        return {'kind': 'strong', 'model': spec, 'tree': None}
    es = [x for x in ss if x[0] == 'enum']
    if es and draw(st.integers(0, 2)) == 0:
        ss = es             # enum members are rare sites otherwise
    kind, path, info = draw(st.sampled_from(ss))
    tree = gen.project(v, spec)
    return {'kind': 'strong', 'model': spec, 'tree': tree, 'corruption': kind,
            'path': list(path), 'info': info,
            'repl': draw(st.sampled_from(['wrongtype', '12345', '[1]', '{zz: 1}', '1.5', 'true', '~']))}


SC_CLASS = {'name': 'SC', 'kind': 'obj', 'bases': [], 'params': [
    {'name': 'u', 'type': ['union', 'int', 'str']}, {'name': 'o', 'type': ['opt', 'int']},
    {'name': 'w', 'type': ['union', 'float', 'bool', 'none']},
    {'name': 'n', 'type': 'int'}, {'name': 'm', 'type': 'int'}, {'name': 't', 'type': 'str'},
    {'name': 'f', 'type': 'float'}]}
REPLS = ['wrongtype', '12345', '[1]', '{zz: 1}', '1.5', 'true', '~']


def enum_scalar_unions(shard, nshards):
    """Class SC (scalar Unions and Optionals before plain int/str/float
    attributes): every combination of alternative taken by the valid values x
    every attribute corrupted x every replacement, as the document, as the second
    item of a list and as a dict value."""
    i = 0
    for u in ('big', '5'):
        for o in ('~', '3'):
            for w in ('1.5', 'true', '~'):
                vals = [('u', u), ('o', o), ('w', w), ('n', '7'), ('m', '8'), ('t', 'txt'), ('f', '2.5')]
                obj = T.M([(k, T.S(v)) for k, v in vals])
                for wrap in ('doc', 'list', 'dict'):
                    for idx in range(len(vals)):
                        for repl in REPLS:
                            if i % nshards == shard:
                                if wrap == 'doc':
                                    tree, path, dt = obj, [1, idx, 1], ['ref', 'SC']
                                elif wrap == 'list':
                                    tree, path, dt = T.Q([copy.deepcopy(obj), copy.deepcopy(obj)]), [1, 1, 1, idx, 1], ['list', ['ref', 'SC']]
                                else:
                                    tree, path, dt = (T.M([('first', copy.deepcopy(obj)), ('second', copy.deepcopy(obj))]),
                                                      [1, 1, 1, 1, idx, 1], ['dict', 'str', ['ref', 'SC']])
                                yield {'kind': 'strong', 'model': {'classes': [SC_CLASS], 'order': ['SC'],
                                                                   'doc_type': dt},
                                       'tree': tree, 'corruption': 'scalar', 'path': path,
                                       'info': 'scalar', 'repl': repl}
                            i += 1


def enum_hooked_enums(shard, nshards):
    """An enum (and a str-mixin enum) whose _yatiml_savorize rewrites the scalar with
    set_value (the documentation's enum_lowercase recipe), nested below line 1: an
    unknown member at every enum position."""
    i = 0
    for mixin in (False, True):
        col = {'name': 'Color', 'kind': 'enum', 'members': ['RED', 'GREEN'],
               'savorize': [['scalar_upper']]}
        if mixin:
            col['str_mixin'] = True
        inner = {'name': 'Inner', 'kind': 'obj', 'bases': [], 'params': [
            {'name': 'n', 'type': 'int'}, {'name': 'color', 'type': ['ref', 'Color']},
            {'name': 'alt', 'type': ['opt', ['ref', 'Color']], 'default': ['none']}]}
        outer = {'name': 'Outer', 'kind': 'obj', 'bases': [], 'params': [
            {'name': 'name', 'type': 'str'}, {'name': 'inner', 'type': ['ref', 'Inner']},
            {'name': 'items', 'type': ['list', ['ref', 'Inner']]},
            {'name': 'by_name', 'type': ['dict', 'str', ['ref', 'Color']]}]}
        spec = {'classes': [col, inner, outer], 'order': ['Color', 'Inner', 'Outer'],
                'doc_type': ['ref', 'Outer']}
        def inn(c, alt=None):
            pairs = [('n', T.S('1')), ('color', T.S(c))]
            if alt:
                pairs.append(('alt', T.S(alt)))
            return T.M(pairs)
        tree = T.M([('name', T.S('x')), ('inner', inn('red', 'green')),
                    ('items', T.Q([inn('green'), inn('red', 'red')])),
                    ('by_name', T.M([('a', T.S('red')), ('b', T.S('green'))]))])
        paths = [[1, 1, 1, 1, 1, 1], [1, 1, 1, 1, 2, 1], [1, 2, 1, 1, 0, 1, 1, 1],
                 [1, 2, 1, 1, 1, 1, 1, 1], [1, 2, 1, 1, 1, 1, 2, 1], [1, 3, 1, 1, 0, 1], [1, 3, 1, 1, 1, 1]]
        for path in paths:
            if i % nshards == shard:
                yield {'kind': 'strong', 'model': spec, 'tree': copy.deepcopy(tree),
                       'corruption': 'enum', 'path': path, 'info': 'RED', 'repl': 'wrongtype'}
            i += 1
        # the enum is the key attribute of items written as a mapping
        # (map_attribute_to_seq / map_attribute_to_index in the container's savorize)
        for op, ctype in (('map_to_seq', ['list', ['ref', 'Inner']]),
                          ('map_to_index', ['dict', 'str', ['ref', 'Inner']])):
            box = {'name': 'Box', 'kind': 'obj', 'bases': [], 'params': [
                {'name': 'title', 'type': 'str'}, {'name': 'items', 'type': ctype}],
                'recognize': [['mapping'], ['attr', 'items']],
                'savorize': [[op, 'items', 'color', None]]}
            spec2 = {'classes': [col, inner, box], 'order': ['Color', 'Inner', 'Box'],
                     'doc_type': ['ref', 'Box']}
            tree2 = T.M([('title', T.S('t')),
                         ('items', T.M([('red', T.M([('n', T.S('1'))])),
                                        ('green', T.M([('n', T.S('2'))]))]))])
            for path in ([1, 1, 1, 1, 0, 0], [1, 1, 1, 1, 1, 0]):
                if i % nshards == shard:
                    yield {'kind': 'strong', 'model': spec2, 'tree': copy.deepcopy(tree2),
                           'corruption': 'enum', 'path': path, 'info': 'RED', 'repl': 'wrongtype'}
                i += 1


def node_at(node, path):
    """Follow a Tree path (see yv.tree.subtrees) through composed nodes."""
    i = 0
    path = list(path)
    while i < len(path):
        assert path[i] == 1
        if isinstance(node, yaml.MappingNode):
            k, v = node.value[path[i + 1]]
            if i + 2 < len(path) + 0 and len(path) > i + 2:
                node = k if path[i + 2] == 0 else v
                i += 3
            else:
                return ('pair', k, v)
        else:
            node = node.value[path[i + 1]]
            i += 2
    return node


def parent_mapping(root, path):
    """(innermost mapping node containing the path's target, key node or None)."""
    node = root
    best = (root if isinstance(root, yaml.MappingNode) else None, None)
    i = 0
    path = list(path)
    while i < len(path):
        if isinstance(node, yaml.MappingNode):
            k, v = node.value[path[i + 1]]
            best = (node, k)
            if len(path) > i + 2:
                node = k if path[i + 2] == 0 else v
                i += 3
            else:
                break
        else:
            node = node.value[path[i + 1]]
            if isinstance(node, yaml.MappingNode):
                best = (node, None)
            # key of a sequence item: keep the enclosing mapping's key
            i += 2
    return best


def check(case, ctx):
    if case['kind'] == 'weak':
        return check_weak(case, ctx)
    return check_strong(case, ctx)


def inside(text, positions):
    lines = text.split('\n')
    if text.endswith('\n') and len(lines) > 1:
        pass
    for ln, col in positions:
        ln, col = int(ln), int(col)
        if not (1 <= ln <= len(lines)):
            return (ln, col)
        # PyYAML also treats \r, NEL, LS, PS as line breaks; be generous there
        if not (1 <= col <= len(lines[ln - 1]) + 1):
            return (ln, col)
    return None


def check_weak(case, ctx):
    spec = case['model']
    m = models.build(spec)
    text = case['text']
    if case['style'] != 'flow':
        try:
            node = T.compose_raw(text)
            if node is not None:
                text = T.restyle(node, case['style'])
        except Exception:
            pass
    try:
        T.compose_raw(text)
    except yaml.YAMLError:
        ctx.count('weak_unparseable')
        return
    except Exception:
        return
    if any(ch in text for ch in '\r\x85\u2028\u2029'):
        ctx.count('weak_exotic_line_breaks_skipped')
        return
    try:
        m.load(text)
        ctx.count('weak_loaded')
        return
    except yatiml.RecognitionError as e:
        msg = str(e)
    except yaml.YAMLError:
        ctx.count('weak_yaml_error')
        return
    except Exception:
        ctx.count('weak_other_exception')
        return
    ctx.count('weak_recognition_error')
    positions = POS.findall(msg)
    if text.count('\n') >= 2:
        ctx.nontriv([spec, text])
        ctx.sample('weak_' + case['style'], {'doc_type': spec['doc_type'], 'text': text,
                                             'message': msg[:300]})
    if not positions:
        ctx.finding('weak', 'no_position_cited',
                    'RecognitionError cites no position: %r\n  text: %r\n  model: %s' % (msg, text, spec))
        return
    bad = inside(text, positions)
    if bad:
        ctx.finding('weak', 'position_outside_document',
                    'RecognitionError cites line %d, column %d outside the document\n  message: %r\n  text: %r\n  model: %s'
                    % (bad[0], bad[1], msg, text, spec))


def check_strong(case, ctx):
    spec = case['model']
    if case.get('tree') is None:
        ctx.count('strong_no_value')
        return
    m = models.build(spec)
    tree = copy.deepcopy(case['tree'])
    kind, path, info = case['corruption'], tuple(case['path']), case['info']
    # the document must be valid before the corruption
    try:
        valid_text = T.restyle(T.compose_raw(T.render_flow(tree)), 'block')
        m.load(valid_text)
    except Exception:
        ctx.count('strong_original_not_valid')
        return
    keyname = None
    if kind == 'scalar':
        repl = case['repl']
        new = {'wrongtype': T.S('wrongtype'), '12345': T.S('12345'), '[1]': T.Q([T.S('1')]),
               '{zz: 1}': T.M([('zz', T.S('1'))]), '1.5': T.S('1.5'), 'true': T.S('true'),
               '~': T.S('~')}[repl]
        tree = T.set_at(tree, path, new)
        target = path
    elif kind == 'enum':
        tree = T.set_at(tree, path, T.S('no_such_member'))
        target = path
    elif kind == 'misspell':
        old = T.get_at(tree, path)
        keyname = old[1] + 'x'
        tree = T.set_at(tree, path, T.S(keyname))
        target = path
    elif kind == 'drop':
        mp = T.get_at(tree, path[:-2])
        keyname = info
        mp = copy.deepcopy(mp)
        mp[1].pop(path[-1])
        tree = T.set_at(tree, path[:-2], mp)
        target = path[:-2]
    elif kind == 'add_key':
        mp = copy.deepcopy(T.get_at(tree, path))
        keyname = 'zz_unknown'
        mp[1].append([T.S(keyname), T.S('1')])
        tree = T.set_at(tree, path, mp)
        target = path + (1, len(mp[1]) - 1, 0)
    try:
        text = T.restyle(T.compose_raw(T.render_flow(tree)), 'block')
        root = T.compose_raw(text)
    except Exception:
        ctx.count('strong_render_failed')
        return
    if text.count('\n') < 2:
        ctx.count('strong_too_short')
        return
    try:
        m.load(text)
        ctx.count('strong_corruption_still_valid_' + kind)
        return
    except yatiml.RecognitionError as e:
        msg = str(e)
    except Exception:
        ctx.count('strong_other_exception')
        return
    ctx.count('strong_' + kind)
    # admitted lines
    lines = set()
    try:
        if kind == 'drop':
            mp_node = root
            tn = node_walk(root, target)
            lines.add(tn.start_mark.line + 1)
            if isinstance(tn, yaml.MappingNode) and tn.value:
                lines.add(tn.value[0][0].start_mark.line + 1)
            pm, pk = parent_mapping(root, target)
            if pk is not None:
                lines.add(pk.start_mark.line + 1)
        else:
            tn = node_walk(root, target)
            lines.add(tn.start_mark.line + 1)
            pm, pk = parent_mapping(root, target)
            if pk is not None:
                lines.add(pk.start_mark.line + 1)
            if pm is not None:
                lines.add(pm.start_mark.line + 1)
                if pm.value:
                    lines.add(pm.value[0][0].start_mark.line + 1)
    except Exception as e:
        ctx.count('strong_locate_failed')
        return
    depth = len([p for p in target if p == 1])
    if len(target) >= 3:
        ctx.nontriv([spec, text])
        ctx.sample('strong_' + kind, {'doc_type': spec['doc_type'], 'text': text,
                                      'admitted_lines': sorted(lines), 'message': msg[:400]})
    positions = POS.findall(msg)
    if not positions:
        ctx.finding('strong', 'no_position_cited:' + kind,
                    'RecognitionError cites no position: %r\n  text: %r\n  model: %s' % (msg, text, spec))
        return
    bad = inside(text, positions)
    if bad:
        ctx.finding('weak', 'position_outside_document',
                    'cites line %d, column %d outside the document\n  message: %r\n  text: %r' % (bad[0], bad[1], msg, text))
        return
    cited = {int(a) for a, _ in positions}
    if not (cited & lines):
        ctx.finding('strong', 'wrong_line:' + kind,
                    'corruption %s (%s) on/near lines %s, message cites lines %s\n  message: %s\n  text:\n%s\n  model: %s'
                    % (kind, info, sorted(lines), sorted(cited), msg, text, spec))
        return
    if keyname is not None and kind in ('misspell', 'drop', 'add_key'):
        names = [keyname] if kind != 'misspell' else [keyname, keyname[:-1]]
        if not any(('"%s"' % n) in msg or ("'%s'" % n) in msg for n in names):
            ctx.finding('strong', 'key_not_named:' + kind,
                        'the message does not name the key %s\n  message: %s\n  text:\n%s\n  model: %s'
                        % (names, msg, text, spec))


def node_walk(node, path):
    path = list(path)
    i = 0
    while i < len(path):
        if isinstance(node, yaml.MappingNode):
            k, v = node.value[path[i + 1]]
            if len(path) > i + 2:
                node = k if path[i + 2] == 0 else v
                i += 3
            else:
                return k
        else:
            node = node.value[path[i + 1]]
            i += 2
    return node


def phases(tier):
    quick = tier != 'thorough'
    return [HypPhase('weak_claim', weak_cases(), 250 if quick else 4000),
            HypPhase('strong_claim', strong_cases(), 250 if quick else 4000),
            EnumPhase('scalar_union_template', enum_scalar_unions,
                      'class SC with Union[int, str], Optional[int], Union[float, bool, None] '
                      'attributes before int/str/float ones: 12 combinations of valid values x 7 '
                      'corrupted attributes x 7 replacements x 3 positions (document, list item, '
                      'dict value)'),
            EnumPhase('hooked_enum_template', enum_hooked_enums,
                      'enum and str-mixin enum with a set_value savorize hook at 7 nested positions '
                      '(attribute, optional attribute, list items, dict values): unknown member')]
