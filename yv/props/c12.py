"""C12 - every source and sink kind gives the same result.

Metamorphic oracle: the same document loaded from a str, a Path, an open text
stream, a StringIO, an open binary stream and a BytesIO gives structurally
equal values or the same error class citing the same positions; dump_function /
dump_json_function write to a file name, a Path, an open text stream and a
StringIO exactly the bytes of dumps_function / dumps_json_function.
"""
import codecs
import io
import os
import pathlib
import re
import shutil

import yaml
from hypothesis import strategies as st

import yatiml

from yv import gen, legacy, models, tree as T
from yv.common import canon, strict_eq
from yv.props import c07
from yv.runner import HypPhase

ID = 'C12'
RULE = ('(load) Hypothesis draws a model and a document text (value-derived, '
        'mutated, tagged or random trees re-serialised in block/flow/quoted/'
        'literal styles so that documents are multi-line; also with CRLF line '
        'ends, a BOM, non-ASCII content, a trailing comment, or arbitrary text) '
        'and loads it from six source kinds. (dump) a model, a value, the '
        'dumper kind (YAML / JSON), indent and ensure_ascii, written to four '
        'sink kinds. Non-trivial: the document has >=2 nodes or non-ASCII or '
        'multi-line content; the value has a class instance or a non-default '
        'option; distinct = distinct cases')
ASSUMPTIONS = [
    'files are UTF-8 (or UTF-16 with a BOM for binary streams); texts that '
    'cannot be encoded as UTF-8 (lone surrogates) are not generated. The main '
    'phases run with PYTHONUTF8=1; the *_c_locale phases repeat the check in a '
    'child interpreter with LC_ALL=C, UTF-8 mode and locale coercion off, where '
    'the locale encoding is ASCII (stands for any non-UTF-8 locale / Windows '
    'code page)',
    'source names in messages differ by design; errors are compared by '
    'exception class and the set of cited (line, column) pairs',
]
BUDGET_S = {'quick': 240, 'thorough': 2400}

FEATS = ('hier', 'extra', 'enum', 'strlike', 'any', 'untyped', 'date', 'path',
         'defaults', 'hooks', 'seasoned', 'abstract_containers')
DFEATS = c07.FEATS
ROOT = os.path.dirname(os.path.dirname(os.path.dirname(os.path.abspath(__file__))))


@st.composite
def load_cases(draw):
    spec = draw(gen.models(FEATS))
    c = draw(st.integers(0, 9))
    if c == 0:
        text = draw(st.text(alphabet=st.characters(codec='utf-8'), max_size=30))
        return {'kind': 'load', 'model': spec, 'text': text, 'src': 'arbitrary'}
    t, origin = draw(gen.doc_for(spec, tags=draw(st.integers(0, 4)) == 0, hard=draw(st.booleans())))
    text = T.render_flow(t)
    style = draw(st.sampled_from(['flow', 'block', 'block', 'literal', 'dq', 'markers', 'narrow']))
    deco = draw(st.sampled_from(['', '', 'crlf', 'bom', 'comment', 'cr', 'nel']))
    # PyYAML reads streams in chunks of 4096 characters: documents longer than that
    long = draw(st.sampled_from([None, None, None, None, 'list', 'list', 'comment']))
    return {'kind': 'load', 'model': spec, 'text': text, 'style': style, 'deco': deco,
            'long': long, 'src': origin.split(':')[0]}


@st.composite
def dump_cases(draw):
    spec = draw(gen.models(DFEATS))
    v = draw(gen.vspec_for(spec, spec['doc_type'], hard=True, finite=True))
    if v is None:
        spec = dict(spec, doc_type='any')
        v = draw(gen.vspec_for(spec, 'any', hard=True, finite=True))
    return {'kind': 'dump', 'model': spec, 'value': v, 'json': draw(st.booleans()),
            'share': draw(st.integers(0, 2)) == 0,
            'indent': draw(st.sampled_from([None, None, 0, 2, 4, 7])),
            'ascii': draw(st.booleans())}


def final_text(case):
    text = case['text']
    if 'style' not in case:
        return text
    if case.get('long') == 'list':
        # the document many times over, as the items of a list (see model_of)
        k = 4700 // (len(text) + 2) + 2
        text = '[' + ', '.join([text] * k) + ']'
    if case['style'] != 'flow':
        try:
            node = T.compose_raw(text)
            if node is not None:
                text = T.restyle(node, case['style'])
        except Exception:
            pass
    d = case.get('deco')
    if d == 'crlf':
        text = text.replace('\n', '\r\n')
    elif d == 'cr':
        text = text.replace('\n', '\r')
    elif d == 'nel':
        text = text + '\x85'
    elif d == 'bom':
        text = '﻿' + text
    elif d == 'comment':
        text = '# héllo wörld\n' + text + ' # trailing ☃\n'
    if case.get('long') == 'comment':
        # multi-byte characters across the chunk boundaries of a binary stream
        text = '# ' + 'é☃' * 2060 + '\n' + text
    return text


def model_of(case):
    spec = case['model']
    if case.get('long') == 'list' and 'style' in case:
        spec = dict(spec, doc_type=['list', spec['doc_type']])
    return spec


POS = re.compile(r'line (\d+), column (\d+)')


def outcome(fn):
    try:
        return ('ok', fn())
    except (yatiml.RecognitionError, yaml.YAMLError) as e:
        cls = 'RecognitionError' if isinstance(e, yatiml.RecognitionError) else (
            'YAMLError:' + type(e).__name__)
        return ('err', cls, tuple(sorted(set(POS.findall(str(e))))))
    except Exception as e:
        return ('exc', type(e).__name__, str(e)[:200])


def scratch():
    d = os.path.join(ROOT, '.scratch', 'c12_%d' % os.getpid())
    os.makedirs(d, exist_ok=True)
    return d


def check(case, ctx):
    if case.get('locale') and not legacy.in_child():
        # same check, in an interpreter whose locale encoding is not UTF-8
        legacy.forward(ID, case, ctx)
        return
    if case['kind'] == 'load':
        check_load(case, ctx)
    else:
        check_dump(case, ctx)


def check_load(case, ctx):
    spec = model_of(case)
    m = models.build(spec)
    load = m.load
    text = final_text(case)
    if len(text) > 4096:
        ctx.count('load_document_longer_than_4096_characters')
    try:
        data = text.encode('utf-8')
    except UnicodeEncodeError:
        ctx.count('not_utf8_encodable')
        return
    d = scratch()
    path = os.path.join(d, 'doc.yaml')
    with open(path, 'wb') as f:
        f.write(data)

    def from_text_stream():
        with open(path, 'r', encoding='utf-8') as f:
            return load(f)

    def from_binary_stream():
        with open(path, 'rb') as f:
            return load(f)
    sources = [
        ('str', lambda: load(text)),
        ('Path', lambda: load(pathlib.Path(path))),
        ('text_stream', from_text_stream),
        ('StringIO', lambda: load(io.StringIO(text))),
        ('binary_stream', from_binary_stream),
        ('BytesIO', lambda: load(io.BytesIO(data))),
    ]
    if not text.startswith('﻿') and all(ord(ch) < 0x10000 or True for ch in text):
        # a binary stream may also be UTF-16 with a byte order mark
        try:
            d16 = codecs.BOM_UTF16_LE + text.encode('utf-16-le')
            sources.append(('BytesIO_utf16', lambda: load(io.BytesIO(d16))))
        except UnicodeEncodeError:
            pass
    outs = []
    for name, fn in sources:
        m.reset()
        outs.append((name, outcome(fn)))
    base = outs[0][1]
    ctx.count('load_' + base[0])
    if any(ord(c) > 127 for c in text):
        ctx.count('load_non_ascii_document_' + base[0])
    multi = '\n' in text.strip() or any(ord(c) > 127 for c in text) or \
        sum(text.count(c) for c in ':,-') >= 1
    if multi:
        ctx.nontriv([spec, text])
        ctx.sample('load_%s_%s' % (base[0], case.get('deco') or case.get('style', 'raw')),
                   {'doc_type': spec['doc_type'], 'text': text,
                    'outcome': base[0] if base[0] == 'ok' else list(base[1:])})
    for name, o in outs[1:]:
        same = o[0] == base[0] and (
            strict_eq(o[1], base[1]) if o[0] == 'ok' else o[1:] == base[1:])
        if o[0] == 'exc' and base[0] == 'exc':
            same = o[1] == base[1]
        if not same:
            ctx.finding('load', 'str_vs_%s:%s_vs_%s' % (name, base[0], o[0]),
                        'loading from str gives %s\n  loading from %s gives %s\n  text: %r\n  model: %s'
                        % (_show(base), name, _show(o), text, spec))
            return


def _show(o):
    return canon(o[1]) if o[0] == 'ok' else repr(o)


def check_dump(case, ctx):
    spec = case['model']
    m = models.build(spec)
    try:
        value = m.realize(case['value'])
    except Exception:
        ctx.count('value_not_constructible')
        return
    classes = m.registered
    kw = {}
    if case['json']:
        dumps, dump = yatiml.dumps_json_function(*classes), yatiml.dump_json_function(*classes)
        if case['indent'] is not None:
            kw['indent'] = case['indent']
        if not case['ascii']:
            kw['ensure_ascii'] = False
    else:
        dumps, dump = yatiml.dumps_function(*classes), yatiml.dump_function(*classes)
    if case.get('share'):
        # the same list / dict / object twice: YAML writes an alias, the JSON
        # dumpers refuse - whatever happens, it happens for every sink
        from yv.props import c05
        from yv.common import is_gen_obj as _obj
        if c05.share_in(value):
            ctx.count('dump_value_with_shared_object')
        elif _obj(value) or isinstance(value, (list, dict)):
            value = [value, value]
            ctx.count('dump_value_with_shared_object')
    try:
        want = dumps(value, **kw)
    except Exception as e:
        ctx.count('dumps_raises_' + type(e).__name__)
        ctx.sample('dumps_raises_' + type(e).__name__,
                   {'error': str(e)[:200], 'value': canon(value), 'model': spec})
        check_sinks_raise(case, ctx, dump, value, kw, e, spec)
        return
    try:
        want_bytes = want.encode('utf-8')
    except UnicodeEncodeError:
        ctx.count('not_utf8_encodable')
        return
    ctx.count('dump_json' if case['json'] else 'dump_yaml')
    if len(want_bytes) != len(want):
        ctx.count('dump_non_ascii_output')
    from yv.common import is_gen_obj
    if kw or is_gen_obj(value) or (isinstance(value, (list, dict)) and value):
        ctx.nontriv([spec, case['value'], case['json'], kw.get('indent'), kw.get('ensure_ascii')])
        ctx.sample('dump_%s' % ('json' if case['json'] else 'yaml'),
                   {'value': canon(value), 'options': kw, 'text': want[:200]})
    d = scratch()
    results = []
    for sink_kind in ('filename', 'Path', 'text_stream', 'StringIO', 'text_stream_in_use',
                      'StringIO_second_dump', 'appending_text_stream'):
        path = os.path.join(d, 'out_%s' % sink_kind)
        if os.path.exists(path):
            os.remove(path)
        expect = want_bytes
        try:
            if sink_kind == 'text_stream_in_use':
                # a stream the caller has already written to: exactly the text
                # of dumps is added
                with open(path, 'w', encoding='utf-8', newline='') as f:
                    f.write('# header\n')
                    dump(value, f, **kw)
                expect = b'# header\n' + want_bytes
            elif sink_kind == 'StringIO_second_dump':
                s = io.StringIO()
                dump(value, s, **kw)
                dump(value, s, **kw)
                with open(path, 'wb') as f:
                    f.write(s.getvalue().encode('utf-8'))
                expect = want_bytes + want_bytes
            elif sink_kind == 'appending_text_stream':
                with open(path, 'w', encoding='utf-8', newline='') as f:
                    f.write('x: 1\n')
                with open(path, 'a', encoding='utf-8', newline='') as f:
                    dump(value, f, **kw)
                expect = b'x: 1\n' + want_bytes
            elif sink_kind == 'filename':
                dump(value, path, **kw)
            elif sink_kind == 'Path':
                dump(value, pathlib.Path(path), **kw)
            elif sink_kind == 'text_stream':
                with open(path, 'w', encoding='utf-8', newline='') as f:
                    dump(value, f, **kw)
            else:
                s = io.StringIO()
                dump(value, s, **kw)
                with open(path, 'wb') as f:
                    f.write(s.getvalue().encode('utf-8'))
        except Exception as e:
            ctx.finding('dump', '%s:raises:%s' % (sink_kind, type(e).__name__),
                        'dump to %s raised %s: %s although dumps succeeded\n  options: %s\n  value: %s\n  model: %s'
                        % (sink_kind, type(e).__name__, e, kw, canon(value), spec))
            return
        with open(path, 'rb') as f:
            got = f.read()
        if got != expect:
            ctx.finding('dump', '%s:bytes_differ' % sink_kind,
                        'dump to %s: the sink holds %r\n  expected (dumps returned %r) %r\n  options: %s json=%s\n  value: %s\n  model: %s'
                        % (sink_kind, got, want_bytes, expect, kw, case['json'], canon(value), spec))
            return


def check_sinks_raise(case, ctx, dump, value, kw, err, spec):
    """dumps raised `err`: dump must raise the same exception class to every sink."""
    d = scratch()
    for sink_kind in ('filename', 'Path', 'text_stream', 'StringIO'):
        path = os.path.join(d, 'outr_%s' % sink_kind)
        try:
            if sink_kind == 'filename':
                dump(value, path, **kw)
            elif sink_kind == 'Path':
                dump(value, pathlib.Path(path), **kw)
            elif sink_kind == 'text_stream':
                with open(path, 'w', encoding='utf-8', newline='') as f:
                    dump(value, f, **kw)
            else:
                dump(value, io.StringIO(), **kw)
        except Exception as e2:
            if type(e2) is not type(err):
                ctx.finding('dump', '%s:raises_other:%s_vs_%s' % (sink_kind, type(err).__name__, type(e2).__name__),
                            'dumps raised %s: %s\n  dump to %s raised %s: %s\n  options: %s json=%s\n  value: %s\n  model: %s'
                            % (type(err).__name__, err, sink_kind, type(e2).__name__, e2, kw, case['json'],
                               canon(value), spec))
                return
            continue
        ctx.finding('dump', '%s:no_error_but_dumps_raises:%s' % (sink_kind, type(err).__name__),
                    'dumps raised %s: %s\n  but dump to %s succeeded\n  options: %s json=%s\n  value: %s\n  model: %s'
                    % (type(err).__name__, err, sink_kind, kw, case['json'], canon(value), spec))
        return
    ctx.count('dump_raises_like_dumps')


def phases(tier):
    quick = tier != 'thorough'
    def c_locale(c):
        return dict(c, locale='C')
    return [HypPhase('load_sources', load_cases(), 150 if quick else 2500),
            HypPhase('dump_sinks', dump_cases(), 150 if quick else 2500),
            HypPhase('load_sources_c_locale', load_cases().map(c_locale),
                     60 if quick else 800),
            HypPhase('dump_sinks_c_locale', dump_cases().map(c_locale),
                     60 if quick else 800)]


def teardown():
    shutil.rmtree(os.path.join(ROOT, '.scratch'), ignore_errors=True)
