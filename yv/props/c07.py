"""C07 - JSON dumps are valid JSON with the same data under every formatting
option.

Oracles: two strict JSON parsers (Python json with parse_constant rejecting,
yv.jsonv), content == JSON projection, ASCII/no-whitespace by default,
non-ASCII unescaped with ensure_ascii=False, JSON -> load round trip for
printable-BMP strings.
"""
import itertools
import json
import math

import yaml
from hypothesis import strategies as st

import yatiml

from yv import gen, jsonv, models, proj, pt, refsem, tree as T
from yv.common import canon, exc_signature, strict_eq
from yv.runner import EnumPhase, HypPhase

ID = 'C07'
RULE = ('(exhaustive) every plain-data tree with at most N nodes over leaves '
        '{"a", 1, 1.5, true, null} and keys k0..k2, empty containers at every '
        'position included, x indent in {None, 0..8} x ensure_ascii in {True, '
        'False}; (generated) plain trees and values of generated class models '
        '(enums, string-likes also as keys, paths, dates and datetimes, '
        'extras, sweeten hooks, _yatiml_attributes) with string contents from '
        'the hard pool (quotes, backslashes, all C0 controls, DEL, NEL, '
        'U+2028, BOM, non-BMP, lone surrogates), finite floats incl. '
        'extremes, big ints. Non-trivial: a container nested in a container, '
        'an empty container, or a string needing escapes; distinct = distinct '
        '(value, options)')
ASSUMPTIONS = [
    'values are tree-shaped (no container or object referenced twice), floats '
    'finite, mapping keys strings/string-likes/enums/dates - the property\'s '
    'preconditions; constructed so',
    'layout of indented output is not asserted, only validity and content',
    'the JSON -> load round trip is asserted for plain data always, and for '
    'class-model values when the reference semantics say the projected '
    'document reads back unambiguously as an equal value',
]
BUDGET_S = {'quick': 240, 'thorough': 2400}

FEATS = ('hier', 'extra', 'enum', 'strlike', 'any', 'untyped', 'date', 'path',
         'defaults', 'sweeten', 'seasoned', 'abstract_containers')
INDENTS = [None, 0, 1, 2, 3, 4, 5, 6, 7, 8]


def reject_constant(c):
    raise ValueError('non-standard JSON constant ' + c)


# -- exhaustive plain trees ---------------------------------------------------
LEAVES = [['str', 'a'], ['int', 1], ['float', '1.5'], ['bool', True], ['none']]


def plain_trees(n):
    """All plain value specs with exactly n nodes."""
    from functools import lru_cache

    @lru_cache(None)
    def go(k):
        if k == 1:
            return [tuple(x) if False else x for x in LEAVES] + [['list', []], ['dict', []]]
        out = []

        def parts(total):
            if total == 0:
                yield ()
                return
            for f in range(1, total + 1):
                for r in parts(total - f):
                    yield (f,) + r
        for p in parts(k - 1):
            for combo in itertools.product(*[go(x) for x in p]):
                out.append(['list', list(combo)])
                out.append(['dict', [[['str', 'k%d' % i], c] for i, c in enumerate(combo)]])
        return out
    return go(n)


FEW = [(None, True), (2, True), (0, False), (7, False)]


def enum_plain(full_n, few_n, few=FEW):
    """all trees <= full_n nodes x all options; trees of full_n+1..few_n nodes
    x the option pairs in `few`."""
    def gen_(shard, nshards):
        i = 0
        for n in range(1, few_n + 1):
            opts = ([(a, b) for a in INDENTS for b in (True, False)]
                    if n <= full_n else few)
            for v in plain_trees(n):
                for ind, asc in opts:
                    if i % nshards == shard:
                        yield {'plain': v, 'indent': ind, 'ascii': asc}
                    i += 1
    return gen_


# -- generated ---------------------------------------------------------------
JSON_HARD = ['"', '\\', '\\"', '/', '\b', '\f', '\n', '\r', '\t', '\x00', '\x1f', '\x7f',
             '\x85', '\xa0', ' ', ' ', '﻿', '\ud800', '\udfff', 'a\ud83d',
             '\U0001f600', 'é', '日本', '</script>', '\\u0041', '{"a": 1}', "'", ' ', '']


def json_strings():
    return st.one_of(gen.strings(True), st.sampled_from(JSON_HARD),
                     st.text(alphabet=st.characters(), max_size=8))


def json_plain():
    leaf = st.one_of(
        json_strings().map(lambda s: ['str', s]), gen.ints().map(lambda i: ['int', i]),
        gen.floats(finite=True).map(gen.fspec), st.booleans().map(lambda b: ['bool', b]),
        st.just(['none']), gen.scalar_vspec('date'))
    return st.recursive(
        leaf,
        lambda ch: st.one_of(
            st.lists(ch, max_size=3).map(lambda l: ['list', l]),
            st.lists(st.tuples(json_strings(), ch), max_size=3,
                     unique_by=lambda p: p[0]).map(
                lambda l: ['dict', [[['str', k], v] for k, v in l]])),
        max_leaves=8)


@st.composite
def gen_cases(draw):
    ind = draw(st.sampled_from(INDENTS))
    asc = draw(st.booleans())
    pre = draw(st.sampled_from([None, None, None, 'same_function', 'other_function']))
    if draw(st.integers(0, 2)) == 0:
        return {'plain': draw(json_plain()), 'indent': ind, 'ascii': asc, 'prelude': pre,
                'sink': draw(st.booleans())}
    spec = draw(gen.models(FEATS))
    v = draw(gen.vspec_for(spec, spec['doc_type'], hard=True, finite=True))
    if v is None:
        return {'plain': draw(json_plain()), 'indent': ind, 'ascii': asc}
    if draw(st.integers(0, 3)) == 0:
        # the value twice in a list: after interning, every date / path /
        # string-like leaf below it is one object referenced from two places
        spec = dict(spec, doc_type=['list', spec['doc_type']])
        v = ['list', [v, v]]
    return {'model': spec, 'value': v, 'indent': ind, 'ascii': asc, 'prelude': pre,
            'sink': draw(st.booleans()), 'twin': draw(st.booleans())}


@st.composite
def long_cases(draw):
    """Strings around PyYAML's 1024-character limits, as keys and as values."""
    def long_string():
        unit = draw(st.sampled_from(['k', 'k', 'é', '"', ' x', '日', '\\']))
        n = draw(st.sampled_from([1018, 1019, 1020, 1021, 1022, 1023, 1024, 1025, 1026,
                                  2048, 4100]))
        n = n // draw(st.sampled_from([1, 1, 2, 6]))
        return (unit * n)[:n].strip() or 'k'
    leaf = draw(st.sampled_from([['int', 1], ['str', 'v'], ['none'], ['list', []]]))
    shape = draw(st.integers(0, 3))
    if shape == 0:
        v = ['dict', [[['str', long_string()], leaf]]]
    elif shape == 1:
        v = ['dict', [[['str', 'a'], ['str', long_string()]], [['str', long_string()], leaf]]]
    elif shape == 2:
        v = ['list', [['str', long_string()], ['dict', [[['str', long_string()], leaf]]]]]
    else:
        v = ['dict', [[['str', 'outer'], ['dict', [[['str', long_string()], ['str', long_string()]]]]]]]
    return {'plain': v, 'indent': draw(st.sampled_from(INDENTS)), 'ascii': draw(st.booleans()),
            'sink': draw(st.booleans())}


def to_cmp(p):
    """projection -> structure comparable with jsonv output."""
    if isinstance(p, dict):
        return jsonv.Obj((to_cmp(k), to_cmp(v)) for k, v in p.items())
    if isinstance(p, list):
        return [to_cmp(x) for x in p]
    return p


def cmp_eq(a, b):
    if isinstance(a, jsonv.Obj) or isinstance(b, jsonv.Obj):
        return (isinstance(a, jsonv.Obj) and isinstance(b, jsonv.Obj) and len(a) == len(b)
                and all(cmp_eq(k1, k2) and cmp_eq(v1, v2) for (k1, v1), (k2, v2) in zip(a, b)))
    if isinstance(a, list):
        return isinstance(b, list) and len(a) == len(b) and all(cmp_eq(x, y) for x, y in zip(a, b))
    return type(a) is type(b) and a == b


def strings_of(p, out):
    if isinstance(p, dict):
        for k, v in p.items():
            strings_of(k, out)
            strings_of(v, out)
    elif isinstance(p, list):
        for x in p:
            strings_of(x, out)
    elif isinstance(p, str):
        out.append(p)
    return out


def nontrivial(p, depth=0):
    if isinstance(p, (dict, list)):
        if len(p) == 0 or depth > 0:
            return True
        items = list(p.values()) + list(p.keys()) if isinstance(p, dict) else p
        return any(nontrivial(x, depth + 1) for x in items)
    if isinstance(p, str):
        return json.dumps(p) != '"' + p + '"'
    return False


def escapes_nonascii(text):
    """A \\uXXXX escape for a code point >= 0x80 inside a string literal."""
    i, n, ins = 0, len(text), False
    while i < n:
        ch = text[i]
        if ins:
            if ch == '\\':
                if text[i + 1] == 'u':
                    cp = int(text[i + 2:i + 6], 16)
                    if cp >= 0x80:
                        return cp
                    i += 6
                    continue
                i += 2
                continue
            if ch == '"':
                ins = False
        elif ch == '"':
            ins = True
        i += 1
    return None


_plain_dumps = None
_plain_load = None


def has_dates(p):
    import datetime
    if isinstance(p, dict):
        return any(has_dates(k) or has_dates(v) for k, v in p.items())
    if isinstance(p, list):
        return any(has_dates(x) for x in p)
    return isinstance(p, datetime.date)


def check(case, ctx):
    global _plain_dumps, _plain_load
    ind, asc = case['indent'], case['ascii']
    if 'plain' in case:
        m = models.build({'classes': [], 'doc_type': 'any'})
        value = m.realize(case['plain'])
        dumps = m.dumps_json
        spec = None
        ctx.count('plain_value')
    else:
        spec = case['model']
        m = models.build(spec)
        try:
            value = m.realize(case['value'])
        except Exception:
            ctx.count('value_not_constructible')
            return
        dumps = m.dumps_json
        ctx.count('model_value')
        if case.get('twin') and isinstance(value, list) and value:
            # an equal copy of the first item: equal date / path / string-like
            # leaves below it then become one object each (interning below)
            value.append(m.realize(case['value'])[0])
            ctx.count('first_item_twice_as_equal_copies')
    if case.get('intern', True):
        # equal date / path leaves become the same object: still a tree
        value, n = proj.intern_leaves(value, m)
        if n:
            ctx.count('date_path_or_stringlike_leaf_object_used_twice')
    try:
        yproj = proj.Projector(m, json=False).project(value)
        jproj = proj.Projector(m, json=True).project(value)
    except proj.Ambiguous:
        ctx.count('projection_ambiguous')
        return
    if not _all_finite(jproj):
        # a sweeten hook put a non-finite float into the output: outside the
        # property's precondition (finite floats)
        ctx.count('nonfinite_float_in_projection_skipped')
        return
    desc = lambda: 'indent=%r ensure_ascii=%r\n  value: %s\n  model: %s' % (
        ind, asc, canon(value), spec)
    kw = {}
    if ind is not None:
        kw['indent'] = ind
    if not asc:
        kw['ensure_ascii'] = False
    m.reset()
    pre = case.get('prelude')
    if pre:
        # a dump that fails half-way (JSON cannot express a shared container)
        # must not influence later dumps of tree-shaped values
        shared = [1, 'x']
        bad = {'k': [shared, {'again': shared}]}
        fn = dumps if pre == 'same_function' else yatiml.dumps_json_function()
        try:
            fn(bad, **kw)
            ctx.count('prelude_did_not_fail')
        except RuntimeError:
            ctx.count('prelude_' + pre)
        except Exception as e:
            ctx.count('prelude_other_' + type(e).__name__)
    try:
        text = dumps(value, **kw)
    except Exception as e:
        ctx.finding('valid', 'dump_raises:' + exc_signature(e),
                    'dumps_json raised %s: %s\n  %s' % (type(e).__name__, e, desc()))
        return
    if nontrivial(jproj):
        ctx.nontriv([case.get('plain') or [spec, case['value']], ind, asc])
        ctx.sample('%s_indent_%s_%s' % ('plain' if spec is None else 'model',
                                        'none' if ind is None else 'n', 'ascii' if asc else 'unicode'),
                   {'value': canon(value), 'indent': ind, 'ensure_ascii': asc, 'json': text[:300]})
    # dump_json (to a stream) is the same emitter: identical text for the same options
    if case.get('sink') and not any(0xD800 <= ord(ch) <= 0xDFFF for ch in text):
        import io
        dump = yatiml.dump_json_function(*m.registered)
        buf = io.StringIO()
        try:
            dump(value, buf, **kw)
        except Exception as e:
            ctx.finding('valid', 'dump_json_raises:' + exc_signature(e),
                        'dump_json to a stream raised %s: %s although dumps_json succeeded\n  %s'
                        % (type(e).__name__, e, desc()))
            return
        ctx.count('dump_json_stream_compared')
        if buf.getvalue() != text:
            ctx.finding('content', 'dump_json_differs_from_dumps_json',
                        'dump_json wrote %r\n  dumps_json returned %r\n  %s' % (buf.getvalue(), text, desc()))
            return
    # (a) strict JSON by two judges
    try:
        parsed, ws = jsonv.parse(text)
    except jsonv.JsonError as e:
        ctx.finding('valid', 'not_rfc8259',
                    'output is not strict JSON (%s)\n  text: %r\n  %s' % (e, text, desc()))
        return
    try:
        json.loads(text, parse_constant=reject_constant)
    except ValueError as e:
        ctx.finding('valid', 'rejected_by_python_json',
                    'json.loads rejects the output (%s)\n  text: %r\n  %s' % (e, text, desc()))
        return
    # (b) content
    parsed = jsonv.normalise(parsed)
    want = to_cmp(jproj)
    wn = jsonv.normalise(want)     # compare modulo UTF-16 surrogate pairing
    if not cmp_eq(parsed, wn):
        ctx.finding('content', 'content_differs',
                    'JSON content %r\n  differs from the projection %r\n  text: %r\n  %s'
                    % (parsed, want, text, desc()))
        return
    # (c) defaults: ASCII only, no whitespace outside strings
    if asc and any(ord(ch) >= 0x80 for ch in text):
        ctx.finding('ascii', 'non_ascii_output',
                    'ensure_ascii output contains non-ASCII characters\n  text: %r\n  %s' % (text, desc()))
        return
    if ind is None and ws:
        ctx.finding('compact', 'whitespace_in_compact_output',
                    'default (indent=None) output contains whitespace outside strings\n  text: %r\n  %s'
                    % (text, desc()))
        return
    # (d) ensure_ascii=False leaves non-ASCII unescaped
    if not asc:
        cp = escapes_nonascii(text)
        if cp is not None:
            ctx.finding('unicode', 'escaped_non_ascii',
                        'ensure_ascii=False output escapes U+%04X\n  text: %r\n  %s' % (cp, text, desc()))
            return
    # (e) JSON -> load round trip
    strs = strings_of(yproj, [])
    if not all(ch.isprintable() and ord(ch) < 0x10000 for s in strs for ch in s):
        ctx.count('roundtrip_skipped_unprintable')
        return
    if spec is None:
        if _plain_load is None:
            _plain_load = yatiml.load_function()
        if has_dates(yproj):
            expect = jproj
        else:
            expect = yproj
        try:
            back = _plain_load(text)
        except Exception as e:
            ctx.finding('roundtrip', load_failure_signature(e, jproj, asc),
                        'loading the JSON text raised %s: %s\n  text: %r\n  %s'
                        % (type(e).__name__, str(e)[:300], text, desc()))
            return
        ctx.count('roundtrip_plain')
        if not proj.plain_eq(_undict(back), _undict(expect)):
            ctx.finding('roundtrip', 'plain_roundtrip_differs',
                        'load(dumps_json(v)) = %r\n  expected %r\n  text: %r\n  %s'
                        % (back, expect, text, desc()))
        return
    if has_dates(yproj):
        ctx.count('roundtrip_skipped_dates')
        return
    try:
        node = T.compose_raw(text)
        ref = refsem.Ref(m)
        rv = ref.load(pt.from_plain(T.plain(node)))
        ok = strict_eq(rv, value)
    except (refsem.Reject, refsem.Unsupported, yaml.YAMLError):
        ok = False
    if not ok:
        ctx.count('roundtrip_skipped_ambiguous_or_lossy')
        return
    ctx.count('roundtrip_model')
    try:
        back = m.load(text)
    except Exception as e:
        ctx.finding('roundtrip', load_failure_signature(e, jproj, asc),
                    'loading the JSON text raised %s: %s\n  text: %r\n  %s'
                    % (type(e).__name__, str(e)[:300], text, desc()))
        return
    if not strict_eq(back, value):
        ctx.finding('roundtrip', 'model_roundtrip_differs',
                    'load(dumps_json(v)) = %s\n  text: %r\n  %s' % (canon(back), text, desc()))


def keys_of(p, out):
    if isinstance(p, dict):
        for k, v in p.items():
            if isinstance(k, str):
                out.append(k)
            keys_of(v, out)
    elif isinstance(p, list):
        for x in p:
            keys_of(x, out)
    return out


def load_failure_signature(e, jproj, asc):
    """Signature of a failed load of the JSON text. YAML limits implicit keys
    to 1024 characters (PyYAML: from the opening quote to the ':'), so a JSON
    object with a longer key is not loadable: known finding F31, identified by
    the presence of such a key and a parse error."""
    if isinstance(e, yaml.YAMLError) and any(
            len(json.dumps(k, ensure_ascii=asc)) > 1024 for k in keys_of(jproj, [])):
        return 'load_of_json_raises:key_longer_than_1024_characters'
    return 'load_of_json_raises:' + type(e).__name__


def _all_finite(p):
    if isinstance(p, dict):
        return all(_all_finite(k) and _all_finite(v) for k, v in p.items())
    if isinstance(p, list):
        return all(_all_finite(x) for x in p)
    if isinstance(p, float):
        return math.isfinite(p)
    return True


def _undict(p):
    from collections import OrderedDict
    if isinstance(p, dict):
        return OrderedDict((_undict(k), _undict(v)) for k, v in p.items())
    if isinstance(p, list):
        return [_undict(x) for x in p]
    return p


def phases(tier):
    quick = tier != 'thorough'
    full, few = (4, 5) if quick else (5, 6)
    fewopts = FEW[:2] if quick else FEW
    return [
        EnumPhase('plain_trees_x_options', enum_plain(full, few, fewopts),
                  'every plain-data tree with <=%d nodes over 5 leaves and keys k0.. '
                  'x 10 indent settings x 2 ensure_ascii settings, and every tree with '
                  '%d nodes x option pairs %s' % (full, few, fewopts)),
        HypPhase('generated_values', gen_cases(), 300 if quick else 5000),
        HypPhase('long_strings', long_cases(), 25 if quick else 400),
    ]
