"""C15 - structural seasoning transforms are inverse pairs and no-ops when
not applicable.

Oracles: (1) reference transforms on plain trees written from the docstrings
(yv.pt); (2) inverse laws that need no reference; (3) "left unchanged" for
attributes that are missing or not of the expected kind.
"""
import copy

from hypothesis import strategies as st

import yatiml

from yv import pt, tree as T
from yv.common import exc_signature
from yv.runner import HypPhase

ID = 'C15'
RULE = ('Hypothesis draws a mapping node with 0-3 ordinary attributes and a '
        'target attribute that is (a) a sequence of mappings each carrying '
        'the key attribute with unique (or, sometimes, duplicated) string '
        'values, 0-3 further attributes and optionally the value attribute '
        'holding a scalar, sequence or mapping, (b) a mapping of mappings '
        'and/or scalars, optionally a proper index (inner key attribute equal '
        'to the outer key), or (c) something else (missing, scalar, sequence '
        'of scalars, mixed sequence, wrong collection kind), and one of: the '
        'four transforms alone (with/without value attribute, strict or not), '
        'the two inverse compositions, the two dash/underscore laws. '
        'Non-trivial: the target has >=2 items, or is of kind (c); distinct = '
        'distinct (tree, operation)')
ASSUMPTIONS = [
    'inputs the docstrings do not describe (item without the key attribute, '
    'non-string key value, key attribute already present before '
    'map_attribute_to_index, non-scalar outer key) are generated rarely and '
    'only counted',
    'positions of the re-added key attribute inside an item are not compared '
    'in the inverse laws (the property says "up to the position")',
]
BUDGET_S = {'quick': 240, 'thorough': 2400}

SCALARS = [T.S('x'), T.S('1'), T.S('1.5'), T.S('true'), T.S('~'), T.S('a b'),
           T.S('1', "'"), T.S(''  , '"'), T.S('yes'), T.S('w-x'), T.S('w_x')]
ATTRS = ['v', 'w', 'desc', 'some_key', 'some-key', 'n']
KEYVALS = ['k1', 'k2', 'item-1', 'item_2', 'a b', 'zz', 'K']


def scal():
    return st.sampled_from(SCALARS).map(copy.deepcopy)


def small_value():
    return st.one_of(
        scal(), scal(),
        st.lists(scal(), max_size=2).map(T.Q),
        st.lists(st.tuples(st.sampled_from(['p', 'q', 'id']), scal()), max_size=2,
                 unique_by=lambda p: p[0]).map(T.M))


@st.composite
def item(draw, key_attr, val_attr, keyval, with_key=True):
    pairs = []
    others = draw(st.lists(st.sampled_from(ATTRS), max_size=3, unique=True))
    others = [o for o in others if o not in (key_attr, val_attr)]
    for o in others:
        pairs.append((o, draw(small_value())))
    if val_attr is not None and draw(st.integers(0, 2)) > 0:
        pairs.append((val_attr, draw(small_value())))
    if with_key:
        pairs.append((key_attr, keyval))
    pairs = draw(st.permutations(pairs))
    return T.M(pairs)


@st.composite
def cases(draw):
    key_attr = draw(st.sampled_from(['id', 'name', 'item_id']))
    val_attr = draw(st.sampled_from([None, 'v', 'desc']))
    op = draw(st.sampled_from([
        'seq_to_map', 'map_to_seq', 'index_to_map', 'map_to_index',
        'inv_seq', 'inv_index', 'dash_unders', 'unders_dash']))
    kind = draw(st.sampled_from(['seq_of_maps', 'seq_of_maps', 'map_of_maps',
                                 'map_mixed', 'index', 'other']))
    if op == 'inv_seq':
        kind = 'seq_of_maps'
    if op == 'inv_index':
        kind = 'index'
    n = draw(st.integers(0, 4))
    kvs = draw(st.lists(st.sampled_from(KEYVALS + [key_attr, val_attr or 'v', 'items']),
                        min_size=n, max_size=n, unique=True))
    weird = None
    if kind == 'seq_of_maps':
        dup = op != 'inv_seq' and n >= 2 and draw(st.integers(0, 5)) == 0
        if dup:
            kvs[-1] = kvs[0]
        items = [draw(item(key_attr, val_attr, T.S(kv))) for kv in kvs]
        if op != 'inv_seq' and items and draw(st.integers(0, 11)) == 0:
            weird = draw(st.sampled_from(['nokey', 'intkey']))
            if weird == 'nokey':
                items[0] = draw(item(key_attr, val_attr, None, with_key=False))
            else:
                items[0] = draw(item(key_attr, val_attr, T.S('7')))
        target = T.Q(items)
    elif kind in ('map_of_maps', 'map_mixed', 'index'):
        pairs = []
        for kv in kvs:
            if kind == 'map_mixed' and draw(st.booleans()):
                pairs.append((kv, draw(small_value())))
            elif kind == 'index':
                pairs.append((kv, draw(item(key_attr, val_attr, T.S(kv)))))
            else:
                has_key = draw(st.integers(0, 7)) == 0
                pairs.append((kv, draw(item(key_attr, val_attr, T.S(kv),
                                            with_key=has_key))))
        target = T.M(pairs)
    else:
        target = draw(st.sampled_from([
            None, T.S('x'), T.S('1'), T.Q([T.S('a'), T.S('b')]),
            T.Q([T.M([(key_attr, T.S('k'))]), T.S('x')]),
            T.Q([T.Q([])]), T.Q([]), T.M([]),
            T.M([('k', T.S('v'))]), T.M([('k', T.Q([T.S('v')]))]),
            T.Q([T.S('x'), T.M([(key_attr, T.S('k'))])])]))
    pool = ['a', 'b_c', 'd-e', 'f_g_h']
    if op in ('dash_unders', 'unders_dash'):
        # separators at the ends, doubled, mixed, alone; non-ASCII words
        pool = pool + ['a__b', '_x', 'x_', '__init__', '-y', 'y-', 'p--q', 'a_b-c', '_', '-',
                       '__', '--', 'max__retries_', 'é_ü', 'é-ü', 'a_1', '1-a', 'a _b', 'a- b']
    pairs = [(a, draw(small_value())) for a in draw(
        st.lists(st.sampled_from(pool), max_size=4 if len(pool) > 4 else 3, unique=True))]
    if target is not None:
        tgt = copy.deepcopy(target)
        at = draw(st.integers(0, len(pairs)))
        if op in ('seq_to_map', 'index_to_map') and kind in ('seq_of_maps', 'index') and tgt[1] \
                and draw(st.integers(0, 2)) == 0:
            # on dumping, an item object that is also referenced from another
            # attribute is ONE node in the tree the sweeten hook sees: the other
            # reference must come out of the transform untouched
            j = draw(st.integers(0, len(tgt[1]) - 1))
            if kind == 'seq_of_maps':
                tgt[1][j] = ['&', 'it', tgt[1][j]]
            else:
                tgt[1][j][1] = ['&', 'it', tgt[1][j][1]]
            pairs.insert(at, ('items', tgt))
            pairs.insert(draw(st.integers(at + 1, len(pairs))), ('current', ['*', 'it']))
            kind += '+item_also_referenced_elsewhere'
        else:
            pairs.insert(at, ('items', tgt))
    return {'tree': T.M(pairs), 'op': op, 'key': key_attr, 'val': val_attr,
            'strict': draw(st.booleans()), 'kind': kind if target is not None else 'missing'}


def apply_real(node, op, key, val, strict):
    if op == 'seq_to_map':
        node.seq_attribute_to_map('items', key, val, strict)
    elif op == 'map_to_seq':
        node.map_attribute_to_seq('items', key, val)
    elif op == 'index_to_map':
        node.index_attribute_to_map('items', key, val)
    elif op == 'map_to_index':
        node.map_attribute_to_index('items', key, val)
    elif op == 'unders_to_dashes':
        node.unders_to_dashes_in_keys()
    elif op == 'dashes_to_unders':
        node.dashes_to_unders_in_keys()
    else:
        raise ValueError(op)


def apply_ref(m, op, key, val, strict):
    if op == 'seq_to_map':
        pt.seq_attribute_to_map(m, 'items', key, val, strict)
    elif op == 'map_to_seq':
        pt.map_attribute_to_seq(m, 'items', key, val)
    elif op == 'index_to_map':
        pt.index_attribute_to_map(m, 'items', key, val)
    elif op == 'map_to_index':
        pt.map_attribute_to_index(m, 'items', key, val)
    elif op == 'unders_to_dashes':
        pt.unders_to_dashes(m)
    elif op == 'dashes_to_unders':
        pt.dashes_to_unders(m)


def strip_key(p, key):
    """Normal form for the inverse laws: (key attribute value, other pairs)."""
    if p[0] != 'm':
        return p
    ks = [v for k, v in p[2] if k[0] == 's' and k[2] == key]
    rest = tuple((k, v) for k, v in p[2] if not (k[0] == 's' and k[2] == key))
    return ('item', p[1], tuple(ks), rest)


def norm_items(p, key):
    """plain tree of the outer mapping with the key attribute's position
    inside each item of 'items' normalised away."""
    out = []
    for k, v in p[2]:
        if k[0] == 's' and k[2] == 'items':
            if v[0] == 'q':
                v = ('q', v[1], tuple(strip_key(i, key) for i in v[2]))
            elif v[0] == 'm':
                v = ('m', v[1], tuple((a, strip_key(b, key)) for a, b in v[2]))
        out.append((k, v))
    return ('m', p[1], tuple(out))


def holds_mapping_in(p, val):
    """Some item of 'items' has the value attribute holding a mapping."""
    for k, v in p[2]:
        if k[0] == 's' and k[2] == 'items' and v[0] in 'qm':
            its = v[2] if v[0] == 'q' else [b for _, b in v[2]]
            for it in its:
                if it[0] == 'm':
                    for a, b in it[2]:
                        if a[0] == 's' and a[2] == val and b[0] == 'm':
                            return True
    return False


def check(case, ctx):
    tree, op, key, val, strict = (case['tree'], case['op'], case['key'],
                                  case['val'], case['strict'])
    text = T.render_flow(tree)
    ynode = T.compose_raw(text)
    before = T.plain(ynode)
    node = yatiml.Node(ynode)
    ctx.count('op_' + op)
    ctx.count('kind_' + case.get('kind', '?'))
    desc = lambda: 'op=%s key=%r value_attribute=%r strict=%r\n  node: %s' % (
        op, key, val, strict, text)
    target = [v for k, v in before[2] if k[2] == 'items']
    nitems = len(target[0][2]) if target and target[0][0] in 'qm' else 0
    if nitems >= 2 or case.get('kind') in ('other', 'missing', 'map_mixed'):
        ctx.nontriv([tree, op, key, val, strict])

    if op in ('inv_seq', 'inv_index'):
        a, b = (('seq_to_map', 'map_to_seq') if op == 'inv_seq'
                else ('index_to_map', 'map_to_index'))
        if val is not None and holds_mapping_in(before, val):
            ctx.count('inverse_proviso_excluded')
            return
        try:
            apply_real(node, a, key, val, True)
            mid = T.plain(node.yaml_node)
            apply_real(node, b, key, val, True)
        except Exception as e:
            ctx.finding('inverse', 'raises:' + exc_signature(e),
                        '%s then %s raised %s: %s\n  %s' % (a, b, type(e).__name__, e, desc()))
            return
        after = T.plain(node.yaml_node)
        ctx.sample(op, {'node': text, 'key': key, 'value_attribute': val,
                        'after_first': repr(mid)[:300]})
        if norm_items(after, key) != norm_items(before, key):
            ctx.finding('inverse', op + ':not_restored',
                        '%s then %s does not restore the data\n  %s\n  before: %r\n  middle: %r\n  after:  %r'
                        % (a, b, desc(), before, mid, after))
        return

    if op in ('dash_unders', 'unders_dash'):
        first, second, bad = (('unders_to_dashes', 'dashes_to_unders', '-')
                              if op == 'unders_dash' else
                              ('dashes_to_unders', 'unders_to_dashes', '_'))
        # single op against the reference
        ref = pt.from_plain(before)
        apply_ref(ref, first, key, val, strict)
        apply_real(node, first, key, val, strict)
        mid = T.plain(node.yaml_node)
        if mid != pt.freeze(ref):
            ctx.finding('shape', first + ':wrong_result',
                        '%s gives %r, documented result %r\n  %s' % (first, mid, pt.freeze(ref), desc()))
            return
        clean = all(bad not in k[2] for k, _ in before[2])
        apply_real(node, second, key, val, strict)
        after = T.plain(node.yaml_node)
        if clean:
            ctx.count('dash_law_applicable')
            if after != before:
                ctx.finding('inverse', op + ':not_restored',
                            '%s then %s does not restore keys free of %r\n  %s\n  after: %r'
                            % (first, second, bad, desc(), after))
        return

    ref = pt.from_plain(before)
    expect = 'value'
    try:
        apply_ref(ref, op, key, val, strict)
    except pt.Unspecified:
        ctx.count('unspecified_input')
        return
    except pt.RefSeasoningError:
        expect = 'seasoning_error'
    try:
        apply_real(node, op, key, val, strict)
        got = 'value'
    except yatiml.SeasoningError as e:
        got = 'seasoning_error'
        err = e
    except Exception as e:
        ctx.finding('shape', op + ':raises:' + exc_signature(e),
                    '%s raised %s: %s\n  %s' % (op, type(e).__name__, e, desc()))
        return
    after = T.plain(node.yaml_node)
    unchanged_expected = pt.freeze(ref) == before
    ctx.count('expect_' + ('noop' if unchanged_expected and expect == 'value' else expect))
    ctx.sample(op + '_' + case.get('kind', ''), {
        'node': text, 'key': key, 'value_attribute': val, 'strict': strict,
        'result': repr(after)[:300]})
    if expect == 'seasoning_error':
        if got != 'seasoning_error':
            ctx.finding('duplicates', op + ':no_error_in_strict_mode',
                        'duplicate keys in strict mode did not raise SeasoningError\n  %s' % desc())
        return
    if got == 'seasoning_error':
        ctx.finding('shape' if not unchanged_expected else 'noop',
                    op + ':unexpected_SeasoningError',
                    '%s raised SeasoningError (%s); documented result: %r\n  %s'
                    % (op, err, pt.freeze(ref), desc()))
        return
    if after != pt.freeze(ref):
        ctx.finding('shape' if not unchanged_expected else 'noop',
                    op + (':wrong_shape' if not unchanged_expected else ':node_modified'),
                    '%s gives\n    %r\n  documented result\n    %r\n  %s'
                    % (op, after, pt.freeze(ref), desc()))


def phases(tier):
    n = 400 if tier != 'thorough' else 6000
    return [HypPhase('transforms', cases(), n)]
