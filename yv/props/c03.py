"""C03 - polymorphic positions resolve to the unique most-derived match, never
a guess.

Oracles: (1) reference semantics with the tag rule (yv.refsem); (2) reference-
free invariants: classes of loaded objects are registered and concrete, unknown
tags and tags naming a class no position admits make the load fail; (3)
metamorphic: permuting Union members and registration order never changes the
outcome.
"""
import copy

import yaml
from hypothesis import strategies as st

import yatiml

from yv import gen, models, portfolio, pt, refsem, tree as T
from yv.common import canon, is_gen_obj, strict_eq
from yv.props import c02
from yv.runner import EnumPhase, HypPhase

ID = 'C03'
RULE = ('Hypothesis draws a model with hierarchies (chains, forks, a multiple-'
        'inheritance join), abstract classes of both kinds, unregistered '
        'classes, discriminating _yatiml_recognize hooks, Union/Optional over '
        'classes and built-ins and a registered Trap class nothing refers to; '
        'a document derived from an instance of any class of the hierarchy '
        '(optionally mutated) with 0-2 explicit tags (!Self, !Ancestor, '
        '!Sibling, !Descendant, !Unregistered, !Trap, !Unknown, core tags) on '
        'mapping nodes or arbitrary nodes; the load is repeated with Union '
        'members and registration order reversed and rotated. Also: every '
        'document of <=3 nodes over the hierarchy portfolio models with every '
        'tag of the model on the root node. Non-trivial: some class position '
        'had >=2 structurally matching candidates before most-derived/tag '
        'resolution, or a Union had >=2 matching members, or a non-core tag '
        'sat on a class position; distinct = distinct (model, text)')
ASSUMPTIONS = [
    'an explicit !P on a node that also matches P\'s subclass loads a P '
    '(tests/test_user_class_override2)',
    'when the remaining candidates mix a class and a built-in collection and '
    'a tag names the class, either that class or RecognitionError is accepted',
    'models for the unknown-tag invariant have no Any/untyped/extra positions '
    '(tags below those are ignored by design, see C04)',
]
BUDGET_S = {'quick': 240, 'thorough': 2400}

FEATS = ('hier', 'abstract', 'unreg', 'enum', 'strlike', 'buf', 'defaults',
         'multi', 'discriminator', 'trap', 'abstract_containers')


@st.composite
def tagged(draw, spec, t):
    names = ['!' + c['name'] for c in spec['classes']]
    pool = names * 3 + ['!Unknown', '!Unknown', '!!map', '!!str', '!!seq', '!Path']
    for _ in range(draw(st.integers(0, 2))):
        subs = list(T.subtrees(t))
        maps = [(p, s) for p, s in subs if s[0] == 'm']
        cands = maps if maps and draw(st.integers(0, 4)) > 0 else subs
        path, sub = draw(st.sampled_from(cands))
        new = copy.deepcopy(sub)
        tg = draw(st.sampled_from(pool))
        if new[0] == 's':
            new[3] = tg
        else:
            new[2] = tg
        t = T.set_at(t, path, new)
    return t


@st.composite
def cases(draw):
    spec = draw(gen.models(FEATS, max_classes=6))
    t, origin = draw(gen.doc_for(spec, tags=False, hard=False))
    t = draw(tagged(spec, t))
    src = origin.split(':')[0]
    if draw(st.integers(0, 5)) == 0:
        t, info = draw(gen.share(t))
        if info:
            src += '+aliases'
    return {'model': spec, 'text': T.render_flow(t), 'src': src, 'prelude': draw(st.booleans())}


def permute_spec(spec, variant):
    """Reverse (variant 1) or rotate (variant 2) all Union member lists and
    the registration order."""
    def pt_(t):
        if isinstance(t, list):
            if t[0] == 'union':
                ms = [pt_(x) for x in t[1:]]
                ms = ms[::-1] if variant == 1 else ms[1:] + ms[:1]
                return ['union'] + ms
            return [t[0]] + [pt_(x) for x in t[1:]]
        return t
    s = copy.deepcopy(spec)
    s['doc_type'] = pt_(s['doc_type'])
    for c in s['classes']:
        for p in c.get('params', []):
            if p.get('type') is not None:
                p['type'] = pt_(p['type'])
    order = list(s.get('order') or [c['name'] for c in s['classes']])
    s['order'] = order[::-1] if variant == 1 else order[1:] + order[:1]
    return s


def outcome(spec, text):
    m = models.build(spec)
    try:
        return ('ok', m.load(text))
    except yatiml.RecognitionError as e:
        return ('rej', str(e))
    except yaml.YAMLError as e:
        return ('rej', 'YAMLError: ' + str(e))
    except Exception as e:
        return ('exc', type(e).__name__ + ': ' + str(e))


def all_objects(v):
    if is_gen_obj(v):
        yield v
        for _, a in v._yv_state()[1]:
            yield from all_objects(a)
    elif isinstance(v, list):
        for x in v:
            yield from all_objects(x)
    elif isinstance(v, dict):
        for k, x in v.items():
            yield from all_objects(x)


def doc_tags(node, out=None, seen=None):
    out = set() if out is None else out
    seen = set() if seen is None else seen
    if id(node) in seen:
        return out
    seen.add(id(node))
    out.add(node.tag)
    if isinstance(node, yaml.SequenceNode):
        for i in node.value:
            doc_tags(i, out, seen)
    elif isinstance(node, yaml.MappingNode):
        for k, v in node.value:
            doc_tags(k, out, seen)
            doc_tags(v, out, seen)
    return out


def domain_ok(node):
    """Aliases are transparent (C18): a document with (acyclic) aliases stands
    for its expansion, which is what the reference reads."""
    onpath = set()

    def go(n):
        if id(n) in onpath:
            return 'cyclic_alias'
        onpath.add(id(n))
        try:
            return go_(n)
        finally:
            onpath.discard(id(n))

    def go_(n):
        if isinstance(n, yaml.SequenceNode):
            for i in n.value:
                r = go(i)
                if r:
                    return r
        elif isinstance(n, yaml.MappingNode):
            ks = set()
            for k, v in n.value:
                if not isinstance(k, yaml.ScalarNode):
                    return 'complex_key'
                if k.tag.endswith(':merge'):
                    return 'merge_key'
                if k.value in ks:
                    return 'duplicate_key'
                ks.add(k.value)
                r = go(k) or go(v)
                if r:
                    return r
        return None
    return go(node)


def check(case, ctx):
    from yv import fuzzphase
    if fuzzphase.note_stats(case, ctx):
        return
    if 'portfolio' in case:
        spec = portfolio.MODELS[case['portfolio']]
    else:
        spec = case['model']
    text = case['text']
    try:
        node = T.compose_raw(text)
    except yaml.YAMLError:
        ctx.count('unparseable')
        return
    if node is None:
        return
    bad = domain_ok(node)
    if bad:
        ctx.count('out_of_domain_' + bad)
        return
    m = models.build(spec)
    if case.get('prelude'):
        # "the outcome does not depend on the order of class registration":
        # other load functions that registered only part of a hierarchy (each
        # class with registered subclasses on its own, then its subclasses
        # without it) have been created and used before this one
        subs = {}
        for c in spec['classes']:
            for b in c.get('bases', []):
                subs.setdefault(b, []).append(c['name'])
        regs = {c.__name__: c for c in m.registered}
        for b in sorted(subs):
            if b in regs:
                for group in ([regs[b]], [regs[n] for n in subs[b] if n in regs]):
                    for cls in group:
                        try:
                            yatiml.load_function(cls, *group)(text)
                        except Exception:
                            pass
                ctx.count('partial_load_functions_used_first')
        m.reset()
    ref = refsem.Ref(m)
    ref.track = True
    tree = pt.from_plain(T.plain(node))
    try:
        want = ('ok', ref.load(tree))
    except refsem.Reject as r:
        want = ('rej', r.reason, str(r))
    except refsem.Unsupported:
        want = None
        ctx.count('reference_unsupported')
    got = outcome(spec, text)
    if got[0] == 'exc':
        ctx.count('other_exception')
        return
    tags = doc_tags(node)
    noncore = sorted(t for t in tags if not t.startswith('tag:yaml.org,2002:'))
    nontrivial = (ref.stats.get('max_candidates', 0) >= 2 or ref.stats.get('ambiguous_union')
                  or ref.stats.get('tagged_class_position'))
    ctx.count(('enum_' if 'portfolio' in case else 'gen_') + 'got_' + got[0])
    if noncore:
        ctx.count('with_noncore_tag')
    if ref.stats.get('max_candidates', 0) >= 2:
        ctx.count('multi_candidate_position')
    if nontrivial:
        ctx.nontriv([spec, text])
        ctx.sample(('tagged_' if noncore else 'untagged_') + got[0],
                   {'doc_type': spec['doc_type'], 'text': text,
                    'classes': [[c['name'], c.get('bases', []), c.get('abstract', ''),
                                 c.get('reg', True)] for c in spec['classes']],
                    'outcome': canon(got[1]) if got[0] == 'ok' else 'RecognitionError'})

    # (2) reference-free invariants
    reg = set(ref.reg)      # includes a class given as the document type
    by = m.by
    if got[0] == 'ok':
        for o in all_objects(got[1]):
            n = type(o).__name__
            if by[n].get('abstract') or n not in reg:
                ctx.finding('invariant', 'abstract_or_unregistered_instantiated',
                            'loaded an object of %s class %s\n  text: %r\n  model: %s'
                            % ('abstract' if by[n].get('abstract') else 'unregistered', n, text, spec))
                return
        has_any = any(p.get('type') in (None, 'any') or c.get('extra')
                      for c in spec['classes'] for p in c.get('params', [{}]))
        adm = _admissible(spec)
        for tg in noncore:
            name = tg[1:]
            known = name in reg or tg == '!Path'
            if not has_any and (not known or (name in by and name not in adm)):
                ctx.finding('invariant', 'unknown_or_inadmissible_tag_accepted',
                            'document carries tag %s (%s) and still loaded: %s\n  text: %r\n  model: %s'
                            % (tg, 'unknown' if not known else 'class no position admits',
                               canon(got[1]), text, spec))
                return

    # (1) reference
    if want is not None:
        if want[0] == 'ok' and got[0] == 'rej':
            ctx.finding('reference', 'rejected_valid',
                        'the rules give %s but load raised %s\n  text: %r\n  model: %s'
                        % (canon(want[1]), got[1].strip().replace('\n', ' | ')[:500], text, spec))
            return
        if want[0] == 'rej' and got[0] == 'ok':
            if want[1] == 'ambiguous' and any(t[1:] in reg for t in noncore):
                ctx.count('mixed_candidates_with_tag_either_accepted')
            else:
                ctx.finding('reference', 'accepted_invalid:' + want[1],
                            'the rules reject (%s) but load returned %s\n  text: %r\n  model: %s'
                            % (want[2], canon(got[1]), text, spec))
                return
        elif want[0] == 'ok' and not strict_eq(want[1], got[1]):
            ctx.finding('reference', 'wrong_class_or_value',
                        'load returned %s\n  the rules give %s\n  text: %r\n  model: %s'
                        % (canon(got[1]), canon(want[1]), text, spec))
            return

    # (3) permutations
    for variant in (1, 2):
        ps = permute_spec(spec, variant)
        if ps == spec:
            continue
        g2 = outcome(ps, text)
        if g2[0] == 'exc':
            continue
        ctx.count('permutations_compared')
        if g2[0] != got[0] or (got[0] == 'ok' and canon(g2[1]) != canon(got[1])):
            ctx.finding('order', 'outcome_depends_on_order',
                        'original order: %s\n  permuted (variant %d): %s\n  text: %r\n  model: %s\n  permuted model: %s'
                        % (canon(got[1]) if got[0] == 'ok' else 'RecognitionError',
                           variant, canon(g2[1]) if g2[0] == 'ok' else 'RecognitionError',
                           text, spec, ps))
            return


def _admissible(spec):
    from yv.conform import admissible_classes
    return admissible_classes(spec)


# ---------------------------------------------------------------------------
HIER = ['P', 'U2', 'AB', 'SH', 'L', 'T1', 'DI', 'DP', 'UI', 'AR']


def enum_tagged(maxn):
    def gen_(shard, nshards):
        i = 0
        for name in HIER:
            spec = portfolio.MODELS[name]
            tags = [''] + ['!%s ' % c['name'] for c in spec['classes']] + ['!Unknown ', '!!map ']
            keys = portfolio.KEYS[name]
            scals = portfolio.SCALS_BY.get(name, portfolio.SCALS)
            for n in range(1, maxn + 1):
                for text in c02.small_trees(n, tuple(keys), tuple(scals)):
                    if not text.startswith('{') and name != 'L':
                        continue
                    for tg in tags:
                        if i % nshards == shard:
                            yield {'portfolio': name, 'text': tg + text, 'prelude': (i // nshards) % 4 == 0}
                        i += 1
    return gen_


def enum_tagged_scalars(shard, nshards):
    """Model EU (two enums sharing a member name, two string-like classes,
    unions of them): every scalar spelling x every tag, at the root, as a list
    item and at each attribute."""
    spec = portfolio.MODELS['EU']
    tags = [''] + ['!%s ' % c['name'] for c in spec['classes']] + [
        '!Unknown ', '!!str ', '!!bool ', '!!int ']
    scals = ['red', 'dark', 'true', 'x', '1', '"red"', '~']
    i = 0
    for tg in tags:
        for sc in scals:
            v = tg + sc
            docs = [v, '[%s]' % v, '[%s, dark]' % v, '{c: %s}' % v, '{c: red, s: %s}' % v,
                    '{c: dark, o: %s}' % v, '{c: dark, t: %s}' % v,
                    '!EH {c: %s, s: !US2 x}' % v]
            for tg2 in tags[1:6]:
                docs.append('{c: %s, s: %sx}' % (v, tg2))
            for d in docs:
                if i % nshards == shard:
                    yield {'portfolio': 'EU', 'text': d}
                i += 1


def enum_aliased_scalars(shard, nshards):
    """Model EV: class EA(k: Col, u: US, c: Union[Col, Shade], s: Union[US,
    US2, int], t: Union[US, str]). One anchored scalar used at a specifically
    typed position and, through an alias, at a Union position where the same
    scalar is ambiguous (or the other way round): the alias must be read like a
    copy of the scalar, never like "what the first use was recognised as"."""
    i = 0
    docs = []
    for sc in ['red', 'dark', 'true', 'x', '"red"', '1']:
        for a, b in [('k', 'c'), ('c', 'k'), ('u', 's'), ('s', 'u'), ('u', 't'), ('t', 'u'),
                     ('k', 's'), ('k', 't'), ('u', 'c')]:
            base = {'k': 'red', 'u': 'x'}
            for first, second in [(a, b)]:
                keys = [first, second] + [x for x in ('k', 'u') if x not in (first, second)]
                parts = []
                for key in keys:
                    if key == first:
                        parts.append('%s: &a %s' % (key, sc))
                    elif key == second:
                        parts.append('%s: *a' % key)
                    else:
                        parts.append('%s: %s' % (key, base[key]))
                docs.append('{' + ', '.join(parts) + '}')
                docs.append('[' + '{' + ', '.join(parts) + '}' + ']')
        docs.append('[&a %s, {k: *a, u: x, c: *a}]' % sc)
    for d in docs:
        if i % nshards == shard:
            yield {'portfolio': 'EV', 'text': d}
        i += 1


def _base_phases(tier):
    quick = tier != 'thorough'
    return [
        HypPhase('generated', cases(), 250 if quick else 4000),
        EnumPhase('small_tagged_documents', enum_tagged(3 if quick else 4),
                  'every mapping document of <=%d nodes over the hierarchy portfolio '
                  'models x every class tag of the model, !Unknown, !!map and no tag '
                  'on the root' % (3 if quick else 4)),
        EnumPhase('tagged_scalars', enum_tagged_scalars,
                  'model EU (enums Col/Shade sharing member red, string-likes US/US2, '
                  'unions of them): 7 scalar spellings x 11 tags (none, each class, '
                  '!Unknown, core tags) at the root, in a list and at every attribute, '
                  'with a second tagged scalar beside it'),
        EnumPhase('aliased_scalars', enum_aliased_scalars,
                  'model EV (enum / string-like typed attributes next to Unions of '
                  'them): 6 scalar spellings anchored at one attribute and aliased at '
                  'another, in both orders, in a list and from a list item'),
    ]


def phases(tier):
    ph = _base_phases(tier)
    if tier == 'thorough':
        from yv import fuzzphase
        ph.append(fuzzphase.struct_fuzz_phase('C03', 15000))
    return ph
