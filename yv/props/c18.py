"""C18 - anchors and aliases are transparent.

Differential oracle: load(aliased text) vs load(text with every alias replaced
by a copy of the anchored node): both fail, or both return structurally equal
values. Self-referential aliases must be rejected with RecognitionError or a
YAML error (not RecursionError, not a successful return).
"""
import copy

import yaml
from hypothesis import strategies as st

import yatiml

from yv import gen, models, tree as T
from yv.common import canon, exc_signature, strict_eq
from yv.runner import HypPhase

ID = 'C18'
RULE = ('Hypothesis draws a class model (Any/untyped/extra positions, enums '
        'with a member named true, unions, classes seasoned with '
        'non-idempotent in-place transforms, hierarchies) and a valid or '
        'mutated document, then shares 1-3 sub-nodes through anchors: either '
        'structurally equal subtrees found in the document, or a subtree '
        'copied over another position (so shared nodes land at positions of '
        'different declared types), also as mapping keys; plus cyclic '
        'documents from templates placed at arbitrary positions. A case is '
        'non-trivial when an alias refers to a collection, or the aliased '
        'node and the alias sit under different keys/positions, or the '
        'document is cyclic; distinct = distinct (model, aliased text)')
ASSUMPTIONS = [
    'precondition checked mechanically: composing both texts with PyYAML and '
    'expanding aliases gives identical (kind, tag, value) trees',
    'object identity is not compared (a shared object and two equal objects '
    'are both accepted)',
]
BUDGET_S = {'quick': 240, 'thorough': 2400}

FEATS = ('hier', 'abstract', 'extra', 'enum', 'strlike', 'any', 'untyped',
         'date', 'path', 'buf', 'defaults', 'hooks', 'seasoned',
         'abstract_containers')

CYCLES = ['&x [*x]', '&x {k: *x}', '&x {a: *x}', '&x [[*x]]', '&x [1, {a: *x}]',
          '&x {? *x : 1}', '&x {a: 1, items: {p: *x}}', '&x {x: [*x], a: 1}',
          '&x [1, *x]', '&x {x: 1, self: *x}', '[&y {k: [*y]}]', '{a: &z [2, {b: *z}], c: 3}',
          '&x [&y [*x], *y]']


def expand(t, env=None):
    env = {} if env is None else env
    k = t[0]
    if k == '&':
        e = expand(t[2], env)
        env[t[1]] = e
        return e
    if k == '*':
        return copy.deepcopy(env[t[1]])
    if k == 's':
        return t
    if k == 'q':
        return ['q', [expand(i, env) for i in t[1]], t[2]]
    return ['m', [[expand(a, env), expand(b, env)] for a, b in t[1]], t[2]]


share = gen.share


def nested_templates(draw):
    """An anchored collection that contains an alias to an earlier anchor and is
    itself referenced again, the positions having different declared types."""
    A = {'name': 'A', 'kind': 'obj', 'bases': [], 'params': [{'name': 'x', 'type': 'int'}]}
    E = {'name': 'E', 'kind': 'enum', 'members': ['true', 'red']}
    S = {'name': 'S', 'kind': 'obj', 'bases': [], 'params': [{'name': 'n', 'type': 'int'}],
         'savorize': [['int_add', 'n', -1]]}
    k = draw(st.integers(0, 3))
    v = draw(st.integers(0, 9))
    if k == 0:
        classes, ta, tb, tc, inner = [A], ['ref', 'A'], ['list', ['ref', 'A']], 'any', T.M([('x', T.S(str(v)))])
    elif k == 1:
        classes, ta, tb, tc = [E], 'bool', ['list', 'bool'], ['list', ['ref', 'E']]
        inner = T.S('true')
    elif k == 2:
        classes, ta, tb, tc = [S], ['ref', 'S'], ['list', ['ref', 'S']], ['list', ['ref', 'S']]
        inner = T.M([('n', T.S(str(v)))])
    else:
        classes, ta, tb, tc = [A], 'any', ['dict', 'str', 'any'], ['dict', 'str', ['ref', 'A']]
        inner = T.M([('x', T.S(str(v)))])
    W = {'name': 'W', 'kind': 'obj', 'bases': [], 'params': [
        {'name': 'a', 'type': ta}, {'name': 'b', 'type': tb}, {'name': 'c', 'type': tc}]}
    spec = {'classes': classes + [W], 'doc_type': ['ref', 'W'],
            'order': [c['name'] for c in classes] + ['W']}
    coll = T.M([('k', ['*', 'n0'])]) if tb[0] == 'dict' else T.Q([['*', 'n0']] + (
        [['*', 'n0']] if draw(st.booleans()) else []))
    pairs = [('a', ['&', 'n0', inner]), ('b', ['&', 'n1', coll]), ('c', ['*', 'n1'])]
    return {'model': spec, 'doc': T.M(pairs), 'src': 'nested_template',
            'info': [{'mode': 'template', 'kind': 'q', 'from': [1, 1, 1], 'to': [1, 2, 1]}]}


@st.composite
def cases(draw):
    if draw(st.integers(0, 11)) == 0:
        return nested_templates(draw)
    spec = draw(gen.models(FEATS))
    c = draw(st.sampled_from(range(10)))
    if c == 0:
        cyc = draw(st.sampled_from(CYCLES))
        t, _ = draw(gen.doc_for(spec, hard=False))
        subs = [p for p, s in T.subtrees(t) if s[0] == 's']
        if subs and draw(st.booleans()):
            text = T.render_flow(T.set_at(t, draw(st.sampled_from(subs)),
                                          T.S('ZZQQ'))).replace('ZZQQ', cyc)
        else:
            text = cyc
        if draw(st.booleans()):
            # where any plain data is acceptable a truncated copy would load
            spec = dict(spec, doc_type=draw(st.sampled_from(
                ['any', 'any', ['list', 'any'], ['dict', 'str', 'any']])))
            text = cyc
        return {'model': spec, 'cyclic': text}
    t, origin = draw(gen.doc_for(spec, hard=False, mutations=c >= 6))
    t, info = draw(share(t))
    return {'model': spec, 'doc': t, 'info': info, 'src': origin.split(':')[0]}


def outcome(load, text):
    try:
        return ('ok', load(text))
    except (yatiml.RecognitionError, yaml.YAMLError) as e:
        return ('err', type(e).__name__ + ': ' + str(e).strip().splitlines()[-1][:100])
    except RecursionError as e:
        return ('exc', exc_signature(e))
    except Exception as e:
        return ('exc', exc_signature(e))


def check(case, ctx):
    from yv import fuzzphase
    if fuzzphase.note_stats(case, ctx):
        return
    if 'fuzz' in case:
        # artifact of the fuzz target: raw text that uses anchors/aliases
        text = case['text']
        spec = fuzzphase.model_of(case)
        try:
            node = T.compose_raw(text)
            if node is None:
                return
            _, depth, shared, cyc = T.node_stats(node)
        except Exception:
            return
        if cyc:
            return check({'model': spec, 'cyclic': text}, ctx)
        if not shared or depth > 20:
            return
        case = {'model': spec, 'aliased_text': text,
                'info': [{'kind': 'q', 'from': [0], 'to': [1], 'mode': 'fuzz'}], 'src': 'fuzz'}
    spec = case['model']
    m = models.build(spec)
    load = m.load
    if 'cyclic' in case:
        text = case['cyclic']
        try:
            node = T.compose_raw(text)
            cyc = T.node_stats(node)[3]
        except Exception:
            ctx.count('cyclic_template_unparseable')
            return
        if not cyc:
            ctx.count('cyclic_template_not_cyclic')
            return
        ctx.count('cyclic')
        ctx.nontriv([spec, text])
        ctx.sample('cyclic', {'doc_type': spec['doc_type'], 'text': text})
        o = outcome(load, text)
        if o[0] == 'ok':
            ctx.finding('cycle', 'cyclic_document_loaded',
                        'self-referential document loaded successfully as %r\n  text: %r\n  model: %s'
                        % (o[1], text, spec))
        elif o[0] == 'exc':
            ctx.finding('cycle', o[1],
                        'self-referential document raised %s instead of RecognitionError/YAMLError\n  text: %r\n  model: %s'
                        % (o[1], text, spec))
        return
    if 'aliased_text' in case:
        a_text = case['aliased_text']
        try:
            e_text = yaml.serialize(T.copy_nodes(T.compose_raw(a_text), share=False),
                                    Dumper=T._style_dumper(), allow_unicode=True)
        except Exception:
            ctx.count('precondition_unparseable')
            return
    else:
        t = case['doc']
        if '*' not in repr(t):
            ctx.count('no_alias_introduced')
            return
        a_text = T.render_flow(t)
        e_text = T.render_flow(expand(t))
    try:
        na, ne = T.compose_raw(a_text), T.compose_raw(e_text)
        if T.plain(na) != T.plain(ne):
            ctx.count('precondition_failed')
            return
    except Exception:
        ctx.count('precondition_unparseable')
        return
    m.reset()
    oa = outcome(load, a_text)
    m.reset()
    ob = outcome(load, e_text)
    info = case.get('info', [])
    nontrivial = any(i['kind'] in 'qm' or i['from'][:-1] != i['to'][:-1] for i in info)
    ctx.count('pair_' + oa[0] + '_' + ob[0])
    if nontrivial:
        ctx.nontriv([spec, a_text])
        ctx.sample('alias_' + oa[0], {'doc_type': spec['doc_type'], 'aliased': a_text,
                                      'expanded': e_text, 'outcome': oa[0]})
    for o, which in ((oa, 'aliased'), (ob, 'expanded')):
        if o[0] == 'exc':
            # exception types are C08's property; here only the differential
            ctx.count('other_exception_' + which)
    if oa[0] == 'exc' or ob[0] == 'exc':
        if oa[0] != ob[0]:
            ctx.finding('differential', 'aliased=%s expanded=%s' % (oa[0], ob[0]),
                        'aliased document: %r -> %s %r\nexpanded document: %r -> %s %r\n  model: %s'
                        % (a_text, oa[0], oa[1], e_text, ob[0], ob[1], spec))
        return
    if oa[0] != ob[0]:
        ctx.finding('differential', 'aliased=%s expanded=%s' % (oa[0], ob[0]),
                    'aliased document: %r -> %s %s\nexpanded document: %r -> %s %s\n  model: %s'
                    % (a_text, oa[0], canon(oa[1]) if oa[0] == 'ok' else oa[1],
                       e_text, ob[0], canon(ob[1]) if ob[0] == 'ok' else ob[1], spec))
        return
    if oa[0] == 'ok' and not strict_eq(oa[1], ob[1]):
        ctx.finding('differential', 'values_differ',
                    'aliased document: %r -> %s\nexpanded document: %r -> %s\n  model: %s'
                    % (a_text, canon(oa[1]), e_text, canon(ob[1]), spec))
        return
    check_stream(case, ctx, m, spec, a_text, oa)


def check_stream(case, ctx, m, spec, a_text, oa):
    """The same aliased document as the second document of a multi-document
    stream read with yaml.load_all and the load function's loader class (the
    documented way to read streams): same outcome as on its own."""
    if '\n' in a_text.strip() or a_text.lstrip().startswith(('%', '---')):
        return
    loader = getattr(m.load, 'loader', None)
    if loader is None:
        return
    stream = '--- %s\n--- %s\n' % (a_text.strip(), a_text.strip())
    m.reset()
    docs = []
    try:
        it = yaml.load_all(stream, Loader=loader)
        for _ in range(2):
            docs.append(('ok', next(it)))
    except (yatiml.RecognitionError, yaml.YAMLError) as e:
        docs.append(('err', type(e).__name__))     # ends the stream
    except StopIteration:
        ctx.count('stream_ended_early')
        return
    except Exception as e:
        docs.append(('exc', exc_signature(e)))
    ctx.count('stream_compared')
    for o in docs:
        same = o[0] == oa[0] and (o[0] != 'ok' or strict_eq(o[1], oa[1]))
        if not same:
            ctx.finding('stream', 'load_all:single=%s stream=%s' % (oa[0], o[0]),
                        'document %r loaded on its own -> %s %s\n  as a document of the stream %r '
                        'through yaml.load_all(stream, Loader=load.loader) -> %s %s\n  model: %s'
                        % (a_text, oa[0], canon(oa[1]) if oa[0] == 'ok' else oa[1], stream,
                           o[0], canon(o[1]) if o[0] == 'ok' else o[1], spec))
            return


def phases(tier):
    n = 250 if tier != 'thorough' else 4000
    ph = [HypPhase('models_x_aliased_documents', cases(), n)]
    if tier == 'thorough':
        from yv import fuzzphase
        ph.append(fuzzphase.fuzz_phase('C18', 200000))
    return ph
