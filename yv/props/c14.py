"""C14 - yatiml.Node accessors behave like an ordered map and a typed scalar.

Three sub-domains (phases):
  ops      operation histories on a Node wrapping a mapping, against an
           ordered-map model (yv.pt) - invariant checked after every step
  scalars  get_value() on composed scalars == what load_function() constructs;
           set_value(v) then get_value()/is_scalar(type(v))
  defaults remove_attributes_with_default_values over (default, value) pairs
"""
import copy
import math

import yaml
from hypothesis import strategies as st

import yatiml

from yv import models, pt, tree as T
from yv.common import exc_signature, strict_eq
from yv.props import c09
from yv.runner import EnumPhase, HypPhase

ID = 'C14'
RULE = ('(ops) Hypothesis draws a mapping node with 0-5 distinct string keys '
        '(values: scalars of every type, sequences, mappings) and a history of '
        '1-30 calls of has/get/set/remove/rename_attribute, '
        'has_attribute_type, is_empty, seq_items, make_mapping on present and '
        'absent keys; non-trivial = at least 3 steps including a mutating call '
        'on a present and on an absent key. (scalars) every spelling of the '
        'C09 word lists plus integer notations, nulls and quoted strings, and '
        'generated values of the five scalar types for set_value. (defaults) '
        'all pairs (default, value) over a pool of the five scalar kinds incl. '
        'NaN, None, True vs 1, 1 vs 1.0, \'3\' vs 3, with and without a '
        '_yatiml_defaults override; non-trivial = default and value of '
        'different kind or equal. distinct = distinct cases')
ASSUMPTIONS = [
    'get_attribute on an absent key may raise SeasoningError (tests) or '
    'KeyError (docstring)',
    'rename_attribute is exercised with a new name that is not currently a key',
    'a default and a value of different scalar kinds that compare equal '
    '(1, 1.0, True) may or may not be removed; NaN vs NaN likewise',
]
BUDGET_S = {'quick': 240, 'thorough': 2400}

NAMES = ['a', 'b', 'some_key', 'c-d', 'x', 'n']
FRESH = ['r1', 'r2', 'new_name', 'z-z']
SCAL_TREES = [T.S('x'), T.S('1'), T.S('-7'), T.S('1.5'), T.S('true'), T.S('False'),
              T.S('~'), T.S('null'), T.S(''  , '"'), T.S('1', "'"), T.S('a b'),
              T.S('.inf'), T.S('1e3'), T.S('yes')]
PY_SCALARS = [['str', 'v'], ['str', ''], ['str', '1'], ['int', 0], ['int', 12],
              ['float', '1.5'], ['float', '0.0'], ['bool', True], ['bool', False],
              ['none']]
TYPES = ['str', 'int', 'float', 'bool', 'none', 'list', 'dict']
PYT = {'str': str, 'int': int, 'float': float, 'bool': bool, 'none': None,
       'list': list, 'dict': dict}


def value_trees():
    sc = st.sampled_from(SCAL_TREES).map(copy.deepcopy)
    return st.one_of(sc, sc, st.lists(sc, max_size=2).map(T.Q),
                     st.lists(st.tuples(st.sampled_from(['p', 'q']), sc), max_size=2,
                              unique_by=lambda p: p[0]).map(T.M))


@st.composite
def op_cases(draw):
    ks = draw(st.lists(st.sampled_from(NAMES), max_size=5, unique=True))
    tree = T.M([(k, draw(value_trees())) for k in ks])
    ops = []
    for _ in range(draw(st.integers(1, 30))):
        k = draw(st.sampled_from(['has', 'get', 'set', 'set', 'set_node', 'remove',
                                  'rename', 'has_type', 'is_empty', 'seq_items',
                                  'classify', 'make_mapping', 'set_from', 'set_from',
                                  'hold']))
        name = draw(st.sampled_from(NAMES + FRESH[:1]))
        if k == 'set':
            ops.append([k, name, draw(st.sampled_from(PY_SCALARS))])
        elif k == 'set_node':
            ops.append([k, name, draw(value_trees())])
        elif k == 'rename':
            ops.append([k, name, draw(st.sampled_from(FRESH + NAMES))])
        elif k == 'set_from':
            ops.append([k, name, draw(st.sampled_from(NAMES))])
        elif k == 'has_type':
            ops.append([k, name, draw(st.sampled_from(TYPES))])
        elif k == 'make_mapping':
            if draw(st.integers(0, 5)) == 0:
                ops.append([k])
        else:
            ops.append([k, name])
    return {'kind': 'ops', 'tree': tree, 'ops': ops}


def lit(v):
    if v[0] == 'date':
        import datetime
        return datetime.date.fromisoformat(v[1])
    return models.lit_val(v)


def run_ops(case, ctx):
    text = T.render_flow(case['tree'])
    ynode = T.compose_raw(text)
    node = yatiml.Node(ynode)
    model = pt.from_plain(T.plain(ynode))
    mut_present = mut_absent = False
    steps = 0
    hist = []
    held = []

    def fail(clause, sig, msg):
        ctx.finding(clause, sig, '%s\n  initial node: %s\n  history: %s'
                    % (msg, text, hist))

    for op in case['ops']:
        k = op[0]
        hist.append(op)
        steps += 1
        ctx.count('op_' + k)
        name = op[1] if len(op) > 1 else None
        present = name is not None and pt.has(model, name)
        try:
            if k == 'has':
                got = node.has_attribute(name)
                if got is not present:
                    return fail('ops', 'has_attribute', 'has_attribute(%r) returned %r' % (name, got))
            elif k == 'get':
                try:
                    sub = node.get_attribute(name)
                except (yatiml.SeasoningError, KeyError):
                    if present:
                        return fail('ops', 'get_attribute_raises_on_present',
                                    'get_attribute(%r) raised although the key is present' % name)
                    continue
                if not present:
                    return fail('ops', 'get_attribute_absent',
                                'get_attribute(%r) returned %r for an absent key' % (name, sub))
                if T.plain(sub.yaml_node) != pt.freeze(pt.get(model, name)):
                    return fail('ops', 'get_attribute_value',
                                'get_attribute(%r) returned %r, model has %r'
                                % (name, T.plain(sub.yaml_node), pt.freeze(pt.get(model, name))))
            elif k == 'set':
                node.set_attribute(name, lit(op[2]))
                pt.set_(model, name, pt.scalar_pt(lit(op[2])))
                mut_present |= present
                mut_absent |= not present
            elif k == 'set_node':
                sub = T.compose_raw(T.render_flow(op[2]))
                node.set_attribute(name, sub)
                pt.set_(model, name, pt.from_plain(T.plain(sub)))
                mut_present |= present
                mut_absent |= not present
            elif k == 'set_from':
                # d[name] = d[src]: the value node itself is assigned
                src = op[2]
                if not pt.has(model, src):
                    hist.pop()
                    steps -= 1
                    continue
                node.set_attribute(name, node.get_attribute(src).yaml_node)
                pt.set_(model, name, copy.deepcopy(pt.get(model, src)))
                mut_present |= present
                mut_absent |= not present
            elif k == 'hold':
                # keep a handle on the current value; it must keep showing it
                if present:
                    held.append((name, node.get_attribute(name), pt.freeze(pt.get(model, name))))
            elif k == 'remove':
                node.remove_attribute(name)
                pt.remove(model, name)
                mut_present |= present
                mut_absent |= not present
            elif k == 'rename':
                if pt.has(model, op[2]):
                    hist.pop()
                    steps -= 1
                    continue
                node.rename_attribute(name, op[2])
                pt.rename(model, name, op[2])
                mut_present |= present
                mut_absent |= not present
            elif k == 'has_type':
                got = node.has_attribute_type(name, PYT[op[2]])
                want = False
                if present:
                    v = pt.get(model, name)
                    if op[2] == 'list':
                        want = v[0] == 'q'
                    elif op[2] == 'dict':
                        want = v[0] == 'm'
                    else:
                        want = v[0] == 's' and v[1] == pt.SCALAR_KIND_TAG[op[2]]
                if got is not want:
                    return fail('ops', 'has_attribute_type',
                                'has_attribute_type(%r, %s) returned %r, model says %r'
                                % (name, op[2], got, want))
            elif k == 'is_empty':
                got = node.is_empty()
                if got is not (len(model[2]) == 0):
                    return fail('ops', 'is_empty', 'is_empty() returned %r' % got)
            elif k == 'seq_items':
                if present and pt.get(model, name)[0] == 'q':
                    items = node.get_attribute(name).seq_items()
                    got = tuple(T.plain(i.yaml_node) for i in items)
                    if got != pt.freeze(pt.get(model, name))[2]:
                        return fail('ops', 'seq_items', 'seq_items() of %r returned %r' % (name, got))
            elif k == 'classify':
                sub = node.get_attribute(name) if present else node
                v = pt.get(model, name) if present else model
                flags = (sub.is_scalar(), sub.is_sequence(), sub.is_mapping())
                want = (v[0] == 's', v[0] == 'q', v[0] == 'm')
                if flags != want:
                    return fail('classify', 'is_scalar/is_sequence/is_mapping',
                                '(is_scalar, is_sequence, is_mapping) = %r for %r' % (flags, pt.freeze(v)))
            elif k == 'make_mapping':
                node.make_mapping()
                model = ['m', pt.MAP, []]
                mut_present = True
        except Exception as e:
            return fail('ops', 'raises:%s:%s' % (k, exc_signature(e)),
                        '%s raised %s: %s' % (op, type(e).__name__, e))
        for hname, hnode, hval in held:
            if T.plain(hnode.yaml_node) != hval:
                return fail('ops', 'held_value_changed',
                            'the Node obtained earlier from get_attribute(%r) showed %r and now shows %r'
                            % (hname, hval, T.plain(hnode.yaml_node)))
        now = T.plain(node.yaml_node)
        if now != pt.freeze(model):
            return fail('ops', 'state_after_' + k,
                        'after %s the node is\n    %r\n  an ordered map would be\n    %r'
                        % (op, now, pt.freeze(model)))
    if steps >= 3 and mut_present and mut_absent:
        ctx.nontriv(case)
        ctx.sample('ops', {'initial': text, 'history': hist,
                           'final': T.render_flow_plain(T.plain(node.yaml_node))
                           if hasattr(T, 'render_flow_plain') else repr(T.plain(node.yaml_node))[:300]})


# ---------------------------------------------------------------------------
_load = None


def same_scalar(a, b):
    if type(a) is not type(b):
        return False
    if isinstance(a, float) and math.isnan(a):
        return math.isnan(b)
    return a == b


def run_scalar(case, ctx):
    global _load
    if _load is None:
        _load = yatiml.load_function()
    if 'text' in case:
        text = case['text']
        try:
            ynode = T.compose_raw(text)
        except yaml.YAMLError:
            ctx.count('scalar_text_unparseable')
            return
        if not isinstance(ynode, yaml.ScalarNode):
            ctx.count('scalar_text_not_scalar')
            return
        kind = ynode.tag.rsplit(':', 1)[-1]
        ctx.count('scalar_tag_' + kind)
        node = yatiml.Node(ynode)
        flags = (node.is_scalar(), node.is_sequence(), node.is_mapping())
        if flags != (True, False, False):
            ctx.finding('classify', 'scalar_flags', '%r classified %r' % (text, flags))
        if kind not in ('str', 'int', 'float', 'bool', 'null', 'timestamp'):
            return
        try:
            want = _load(text)
        except Exception as e:
            ctx.count('load_raises_' + type(e).__name__)
            return
        import datetime
        typed = [t for t in (str, int, float, bool, None, datetime.date) if node.is_scalar(t)]
        wt = None if want is None else (
            datetime.date if isinstance(want, datetime.date) else type(want))
        if typed != [wt]:
            ctx.finding('scalar', 'is_scalar_type',
                        'is_scalar(t) true for %r on %r which loads as %r' % (typed, text, want))
            return
        ctx.nontriv(text)
        try:
            got = node.get_value()
        except Exception as e:
            ctx.finding('scalar', 'get_value_raises:' + exc_signature(e),
                        'get_value() on parsed scalar %r (tag %s) raised %s: %s; load gives %r'
                        % (text, kind, type(e).__name__, e, want))
            return
        ctx.sample('get_value_' + kind, {'text': text, 'value': repr(got)})
        if not same_scalar(got, want):
            ctx.finding('scalar', 'get_value_differs_from_load:' + kind,
                        'get_value() on parsed scalar %r returned %r, a load constructs %r'
                        % (text, got, want))
        return
    base = T.compose_raw(T.render_flow(case['on']))
    node = yatiml.Node(base)
    for spec_v in [case['set']] + ([case['then']] if case.get('then') else []):
        if not set_and_check(case, ctx, node, spec_v):
            return


def set_and_check(case, ctx, node, spec_v):
    v = lit(spec_v)
    case = dict(case, set=spec_v)
    ctx.count('set_value_' + case['set'][0])
    if isinstance(node.yaml_node, yaml.ScalarNode) and node.yaml_node.value == (
            'true' if v is True else 'false' if v is False else '' if v is None else str(v)):
        ctx.count('set_value_same_text_as_before')
    try:
        node.set_value(v)
        got = node.get_value()
        ok_type = node.is_scalar(None if v is None else type(v))
    except Exception as e:
        ctx.finding('scalar', 'set_get_raises:' + exc_signature(e),
                    'set_value(%r) / get_value() raised %s: %s' % (v, type(e).__name__, e))
        return False
    ctx.nontriv(['set', case['set'], case['on'], case.get('then')])
    if not same_scalar(got, v) or not ok_type:
        ctx.finding('scalar', 'set_then_get:' + case['set'][0],
                    'on %s: set_value(%r) then get_value() -> %r, is_scalar(%s) -> %r'
                    % (T.render_flow(case['on']), v, got, type(v).__name__, ok_type))
    others = [t for t in (str, int, float, bool, None)
              if node.is_scalar(t) and t is not (None if v is None else type(v))]
    if others:
        ctx.finding('scalar', 'set_then_is_scalar_other',
                    'after set_value(%r) is_scalar is also true for %r' % (v, others))
    return True


# ---------------------------------------------------------------------------
DEFAULT_POOL = [['none'], ['int', 0], ['int', 1], ['int', 3], ['float', '1.0'],
                ['float', '1.5'], ['float', 'nan'], ['float', 'inf'],
                ['bool', True], ['bool', False], ['str', ''], ['str', '3'],
                ['str', 'abc'], ['str', 'true'], ['str', 'null'], ['str', '1.5']]


def kind_of(v):
    return v[0]


def run_defaults(case, ctx):
    spec = {'classes': [{
        'name': 'A', 'kind': 'obj', 'bases': [],
        'params': ([{'name': 'req', 'type': 'any'}]
                   + [{'name': 'p%d' % i, 'type': 'any', 'default': d}
                      for i, (d, _, _) in enumerate(case['attrs'])]),
        'defaults_override': [['p%d' % i, o] for i, (_, o, _) in enumerate(case['attrs'])
                              if o is not None]}],
        'doc_type': ['ref', 'A']}
    m = models.build(spec)
    cls = m.classes['A']
    # node as a representer would build it, or via set_attribute
    ynode = T.compose_raw('{}')
    node = yatiml.Node(ynode)
    order = case.get('order') or (['req'] + ['p%d' % i for i in range(len(case['attrs']))])
    vals = {'req': ['int', 5]}
    for i, (_, _, v) in enumerate(case['attrs']):
        vals['p%d' % i] = v
    if case.get('via') == 'dump':
        data = {}
        for n in order:
            data[n] = lit(vals[n]) if vals[n][0] != 'absent' else None
        data = {n: x for n, x in data.items() if vals[n][0] != 'absent'}
        ynode = T.compose_raw(yatiml.dumps_function()(data)) if data else ynode
        if not isinstance(ynode, yaml.MappingNode):
            return
        node = yatiml.Node(ynode)
    else:
        for n in order:
            if vals[n][0] != 'absent':
                node.set_attribute(n, lit(vals[n]))
    before = T.plain(node.yaml_node)
    keys_before = [k[2] for k, _ in before[2]]
    try:
        node.remove_attributes_with_default_values(cls)
    except Exception as e:
        ctx.finding('defaults', 'raises:' + exc_signature(e),
                    'remove_attributes_with_default_values raised %s: %s\n  defaults/overrides/values: %s\n  node: %r'
                    % (type(e).__name__, e, case['attrs'], before))
        return
    after = T.plain(node.yaml_node)
    keys_after = [k[2] for k, _ in after[2]]
    nontriv = False
    for i, (d, o, v) in enumerate(case['attrs']):
        n = 'p%d' % i
        if v[0] == 'absent':
            continue
        eff = o if o is not None else d
        dk, vk = kind_of(eff), kind_of(v)
        dv, vv = lit(eff), lit(v)
        removed = n not in keys_after
        if dk == vk:
            eq = same_scalar(dv, vv)
            if isinstance(dv, float) and math.isnan(dv) and isinstance(vv, float) and math.isnan(vv):
                ctx.count('defaults_nan_pair')
                continue
            nontriv |= eq
            if removed is not eq:
                ctx.finding('defaults', ('not_removed' if eq else 'wrongly_removed') + ':%s' % dk,
                            'attribute %s with value %r and default %r was %s\n  node before: %r\n  after: %r'
                            % (n, vv, dv, 'removed' if removed else 'kept', before, after))
                return
        else:
            nontriv = True
            if dv is not None and vv is not None and not isinstance(dv, str) \
                    and not isinstance(vv, str) and dv == vv:
                ctx.count('defaults_cross_kind_equal')
                continue
            if removed:
                ctx.finding('defaults', 'wrongly_removed:%s_vs_%s' % (dk, vk),
                            'attribute %s with value %r (%s) was removed although the default is %r (%s)\n  node before: %r'
                            % (n, vv, vk, dv, dk, before))
                return
    if 'req' not in keys_after:
        ctx.finding('defaults', 'required_removed', 'the non-defaulted attribute was removed: %r' % (after,))
        return
    kept = [k for k in keys_before if k in keys_after]
    if kept != keys_after:
        ctx.finding('defaults', 'order_changed', 'order changed: %r -> %r' % (keys_before, keys_after))
        return
    for (k1, v1) in after[2]:
        if (k1, v1) not in before[2]:
            ctx.finding('defaults', 'value_changed', 'entry %r appeared' % ((k1, v1),))
            return
    if nontriv:
        ctx.nontriv(case)
        ctx.sample('defaults', {'defaults_overrides_values': case['attrs'],
                                'kept': keys_after})


def check(case, ctx):
    k = case['kind']
    ctx.count('kind_' + k)
    if k == 'ops':
        run_ops(case, ctx)
    elif k == 'scalar':
        run_scalar(case, ctx)
    else:
        run_defaults(case, ctx)


# ---------------------------------------------------------------------------
INT_SPELLINGS = ['0', '7', '-7', '+7', '007', '017', '0o17', '0x1F', '0x1f', '-0x1F',
                 '0b101', '1_000', '0b1_0', '190:20:30', '1:30', '-1:30', '0x_', '0',
                 '00', '123456789012345678901234567890', '~', 'null', 'Null', 'NULL',
                 '', '""', "''", '"1"', "'true'", '"~"', '!!str 1', '!!int "7"',
                 '!!float 1', '!!null ""', '!!bool "true"', '!!bool yes', '!!bool on', '!!bool No', '!!bool OFF', '!!bool y', 'yes', 'No', 'on',
                 '2001-01-01', '2001-01-01 10:00:00', '2001-01-01T10:00:00Z',
                 '2001-1-2t3:4:5.25 +01:30', '2001-13-45', '2001-02-30', '!!timestamp 2001-01-01',
                 '!!timestamp x', '"2001-01-01"', '1.5', '.5', '5.', '1e5', '-.inf', '.NaN', '+.INF',
                 '1.0e+22', '1E-3', 'true', 'True', 'TRUE', 'false', 'False', 'FALSE',
                 '!!binary aGk=', '!Local x', '!Postcode 1098 XG', '! x', '<<', '=', '!!merge x',
                 '!!value x', '!!omap x', '!!python/name:os.getcwd ""', '!!set ""',
                 'a', 'a b', '"a\\nb"', '|\n  lit\n', '>\n  folded\n', '[1]', '{a: 1}']


def enum_scalars(shard, nshards):
    words = list(dict.fromkeys(c09.accepted_words() + INT_SPELLINGS))
    for i, w in enumerate(words):
        if i % nshards == shard:
            yield {'kind': 'scalar', 'text': w}


def enum_defaults(shard, nshards):
    i = 0
    for d in DEFAULT_POOL:
        for v in DEFAULT_POOL + [['absent']]:
            for via in ('set', 'dump'):
                if i % nshards == shard:
                    yield {'kind': 'defaults', 'attrs': [[d, None, v]], 'via': via}
                i += 1
    # values that are not of the five scalar kinds (a date) against look-alike defaults
    for d in (['str', '2020-01-01'], ['none'], ['int', 3], ['str', '']):
        if i % nshards == shard:
            yield {'kind': 'defaults', 'attrs': [[d, None, ['date', '2020-01-01']]], 'via': 'dump'}
        i += 1
    for o in DEFAULT_POOL[:10]:
        for v in DEFAULT_POOL[:12]:
            if i % nshards == shard:
                yield {'kind': 'defaults', 'attrs': [[['none'], o, v]], 'via': 'set'}
            i += 1


@st.composite
def default_cases(draw):
    n = draw(st.integers(1, 4))
    attrs = []
    for _ in range(n):
        d = draw(st.sampled_from(DEFAULT_POOL))
        o = draw(st.one_of(st.none(), st.none(), st.sampled_from(DEFAULT_POOL)))
        v = draw(st.one_of(st.sampled_from(DEFAULT_POOL), st.just(o if o is not None else d),
                           st.just(['absent'])))
        attrs.append([d, o, v])
    names = ['req'] + ['p%d' % i for i in range(n)]
    return {'kind': 'defaults', 'attrs': attrs, 'via': draw(st.sampled_from(['set', 'dump'])),
            'order': draw(st.permutations(names))}


def set_cases():
    from yv import gen
    vals = st.one_of(
        gen.strings(True).map(lambda s: ['str', s]), gen.ints().map(lambda i: ['int', i]),
        gen.floats().map(gen.fspec), st.booleans().map(lambda b: ['bool', b]),
        st.just(['none']))
    return st.builds(lambda v, on: {'kind': 'scalar', 'set': v, 'on': on}, vals,
                     st.sampled_from([T.S('x'), T.S('1'), T.S('~'), T.Q([]), T.M([]),
                                      T.S('true'), T.S('1.5')]))


SAME_ON = [T.S('1'), T.S('1', '"'), T.S('true'), T.S('true', '"'), T.S('1.5'), T.S('1.5', "'"),
           T.S('~'), T.S(''), T.S('', '"'), T.S('None', '"'), T.S('x'), T.S('7'), T.S('false'),
           T.S('1', '', '!!str'), T.S('1', '', '!!float')]
SAME_VALS = [['int', 1], ['str', '1'], ['bool', True], ['str', 'true'], ['float', '1.5'],
             ['str', '1.5'], ['none'], ['str', ''], ['str', 'None'], ['str', 'x'], ['int', 7],
             ['str', '7'], ['bool', False], ['str', 'false'], ['float', '1.0'], ['str', '~']]


def enum_same_text(shard, nshards):
    """A scalar whose text already is the string form of the new value, of
    another or the same type; then a second set_value on the same Node."""
    i = 0
    for on in SAME_ON:
        for v in SAME_VALS:
            for then in [None] + SAME_VALS:
                if i % nshards == shard:
                    c = {'kind': 'scalar', 'set': v, 'on': on}
                    if then is not None:
                        c['then'] = then
                    yield c
                i += 1


def phases(tier):
    quick = tier != 'thorough'
    return [
        EnumPhase('set_value_same_text', enum_same_text,
                  'every (scalar node, value, second value) over %d nodes and %d values whose '
                  'texts coincide across types' % (len(SAME_ON), len(SAME_VALS))),
        HypPhase('op_histories', op_cases(), 250 if quick else 4000),
        EnumPhase('scalar_spellings', enum_scalars,
                  'every spelling of the C09 word lists plus integer/null/quoted/tagged spellings'),
        HypPhase('set_value', set_cases(), 100 if quick else 1500),
        EnumPhase('default_value_pairs', enum_defaults,
                  'all (default, value) pairs over the 16-entry scalar pool, built through '
                  'set_attribute and through a dump; all (override, value) pairs over a sub-pool'),
        HypPhase('defaults_multi', default_cases(), 100 if quick else 1500),
    ]
