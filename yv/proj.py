"""Projection of a Python value to the plain data its dump is documented to
contain (docs: basic_tutorial, advanced_features "Seasoning", recipes,
api docstrings). Plain data: dict (ordered), list, str, int, float, bool, None,
date/datetime (YAML) - or ISO strings (JSON).

Reference implementations of the declarative sweeten ops work on these dicts.
"""
import datetime
import enum
import math
import pathlib
from collections import OrderedDict, UserString

from yv.common import is_gen_obj


class Ambiguous(Exception):
    """The documentation allows more than one output (counted, skipped)."""


def sig_params(c):
    ps = c.get('params', [])
    return [p for p in ps if 'default' not in p] + [p for p in ps if 'default' in p]


def scalar_kind(v):
    if isinstance(v, bool):
        return 'bool'
    if v is None:
        return 'none'
    if isinstance(v, str):
        return 'str'
    if isinstance(v, int):
        return 'int'
    if isinstance(v, float):
        return 'float'
    return None


class Projector:
    def __init__(self, model, json=False):
        self.m = model
        self.by = model.by
        self.json = json
        self.reg = {c.__name__ for c in model.registered}

    def project(self, v):
        if is_gen_obj(v):
            return self.obj(v)
        if isinstance(v, enum.Enum):
            return self.enum(v)
        t = type(v)
        if t.__name__ in self.by and self.by[t.__name__].get('kind') in (
                'strsub', 'userstring', 'ystring'):
            return self.strlike(v)
        if isinstance(v, pathlib.PurePath):
            return str(v)
        if isinstance(v, dict):
            out = OrderedDict()
            for k, x in v.items():
                out[self.project(k)] = self.project(x)
            return out
        if isinstance(v, (list, tuple)):
            return [self.project(x) for x in v]
        if isinstance(v, datetime.datetime):
            return v.isoformat(' ') if self.json else v
        if isinstance(v, datetime.date):
            return v.isoformat() if self.json else v
        return v

    def enum(self, v):
        return self.scalar_ops(v.name, type(v).__name__)

    def strlike(self, v):
        return self.scalar_ops(str(v), type(v).__name__)

    def scalar_ops(self, text, name):
        for cn in self.sweeten_order(name):
            for op in self.by[cn].get('sweeten') or []:
                if op[0] == 'scalar_lower':
                    text = text.lower()
                else:
                    raise ValueError(op)
        return text

    def chain(self, name):
        """Classes whose sweeten hooks run for an object of class `name`:
        registered direct bases first (recursively), then the class."""
        out = []
        for b in self.by[name].get('bases', []):
            if b in self.reg:
                for x in self.chain(b):
                    if x not in out:
                        out.append(x)
        out.append(name)
        return out

    def obj(self, v):
        name = type(v).__name__
        c = self.by[name]
        if c.get('attrs_hook') is not None:
            pairs = [(n, getattr(v, n)) for n in c['attrs_hook']]
        else:
            pairs = [(p['name'], getattr(v, p['name'])) for p in sig_params(c)]
            if c.get('extra'):
                pairs += list(v._yatiml_extra.items())
        d = OrderedDict()
        for k, x in pairs:
            d[k] = self.project(x)
        out = d
        # note: a diamond's root would run twice in yatiml; such models are
        # not generated for dumping
        for cn in self.sweeten_order(name):
            for op in self.by[cn].get('sweeten') or []:
                out = self.apply(out, op, cn)
        return out

    def sweeten_order(self, name):
        out = []

        def rec(n):
            for b in self.by[n].get('bases', []):
                if b in self.reg:
                    rec(b)
            out.append(n)
        rec(name)
        return out

    # -- reference sweeten ops on projected dicts ------------------------------
    def apply(self, d, op, cname):
        k = op[0]
        if not isinstance(d, dict):
            return d
        if k == 'unders_to_dashes':
            return OrderedDict((a.replace('_', '-') if isinstance(a, str) else a, b)
                               for a, b in d.items())
        if k == 'rename':
            return OrderedDict((op[2] if a == op[1] else a, b) for a, b in d.items())
        if k == 'remove':
            return OrderedDict((a, b) for a, b in d.items() if a != op[1])
        if k == 'add':
            from yv import models
            d = OrderedDict(d)
            d[op[1]] = models.lit_val(op[2])
            return d
        if k == 'remove_defaults':
            return self.remove_defaults(d, cname)
        if k == 'int_to_word':
            table = {v: w for w, v in op[2]}
            d = OrderedDict(d)
            x = d.get(op[1])
            if type(x) is int and x in table:
                d[op[1]] = table[x]
            return d
        if k == 'int_add':
            d = OrderedDict(d)
            if type(d.get(op[1])) is int:
                d[op[1]] = d[op[1]] + op[2]
            return d
        if k == 'map_to_scalar_opt':
            x = d.get(op[1], 0)
            if x is None or type(x) is str:
                return x
            return d
        if k == 'map_to_scalar':
            x = d.get(op[1])
            if type(x) is str:
                return x
            return d
        if k in ('seq_to_map', 'index_to_map'):
            return self.collection_op(d, op)
        raise ValueError(op)

    def defaults_of(self, cname):
        from yv import models
        c = self.by[cname]
        out = {}
        for p in c.get('params', []):
            if 'default' in p:
                dv = p['default']
                out[p['name']] = (self.m.classes[dv[1]][dv[2]] if dv[0] == 'enum'
                                  else self.m.classes[dv[1]](dv[2]) if dv[0] == 'strlike'
                                  else models.lit_val(dv))
        for n, v in c.get('defaults_override') or []:
            if n in out:
                out[n] = models.lit_val(v)
        return out

    def remove_defaults(self, d, cname):
        defaults = self.defaults_of(cname)
        out = OrderedDict()
        for a, b in d.items():
            if a in defaults:
                dv = defaults[a]
                if isinstance(dv, enum.Enum):
                    # documented as unsupported for enums: an attribute holding
                    # the default member may stay or go, any other member stays
                    # (also for class X(str, Enum) whose values look like names)
                    if b == self.enum(dv):
                        raise Ambiguous('enum default')
                    out[a] = b
                    continue
                if type(dv).__name__ in self.by and self.by[type(dv).__name__].get('kind') in (
                        'strsub', 'userstring', 'ystring'):
                    # a string-like default: equal text may stay or go
                    if b == self.strlike(dv):
                        raise Ambiguous('string-like default')
                    out[a] = b
                    continue
                bk, dk = scalar_kind(b), scalar_kind(dv)
                if bk is not None and type(b) in (str, int, float, bool, type(None)):
                    if dk == bk:
                        if isinstance(b, float) and math.isnan(b) and math.isnan(dv):
                            raise Ambiguous('NaN default')
                        if b == dv:
                            continue
                    elif dk is not None and bk in ('int', 'float', 'bool') and \
                            dk in ('int', 'float', 'bool') and b == dv:
                        raise Ambiguous('cross-kind equal default')
            out[a] = b
        return out

    def collection_op(self, d, op):
        k, attr, key_attr, val_attr = op[0], op[1], op[2], op[3]
        x = d.get(attr)
        if k == 'seq_to_map':
            if not isinstance(x, list) or not all(isinstance(i, dict) for i in x):
                return d
            keys = [i.get(key_attr) for i in x]
            if any(type(kk) is not str for kk in keys) or len(set(keys)) != len(keys):
                raise Ambiguous('seq_to_map on items without unique string keys')
            items = x
        else:
            if not isinstance(x, dict) or not all(isinstance(i, dict) for i in x.values()):
                return d
            keys = list(x.keys())
            items = list(x.values())
        new = OrderedDict()
        for kk, it in zip(keys, items):
            rest = OrderedDict((a, b) for a, b in it.items() if a != key_attr)
            if val_attr is not None and list(rest.keys()) == [val_attr]:
                new[kk] = rest[val_attr]
            else:
                new[kk] = rest
        d = OrderedDict(d)
        d[attr] = new
        return d


def plain_eq(a, b):
    """Strict, order-sensitive equality of plain data (NaN == NaN)."""
    if isinstance(a, dict):
        if not isinstance(b, dict) or len(a) != len(b):
            return False
        return all(plain_eq(k1, k2) and plain_eq(a[k1], b[k2])
                   for k1, k2 in zip(a.keys(), b.keys()))
    if isinstance(a, list):
        return isinstance(b, list) and len(a) == len(b) and all(
            plain_eq(x, y) for x, y in zip(a, b))
    if type(a) is not type(b):
        return False
    if isinstance(a, float) and math.isnan(a):
        return math.isnan(b)
    return a == b


def share_index_item(value, m):
    """If an index object (container class with a seq/index<->map hook) has an
    unset `first` attribute, point it at its first item: the same object is then
    referenced from the container and from the attribute. Returns True if done."""
    from yv.common import is_gen_obj
    done = [False]

    def go(v):
        if is_gen_obj(v):
            c = m.by[type(v).__name__]
            if c.get('index') and hasattr(v, 'first') and v.first is None:
                items = v.items
                it = (items[0] if isinstance(items, list) and items else
                      next(iter(items.values())) if isinstance(items, dict) and items else None)
                if it is not None:
                    v.first = it
                    done[0] = True
            for p in c.get('params', []):
                go(getattr(v, p['name'], None))
        elif isinstance(v, list):
            for x in v:
                go(x)
        elif isinstance(v, dict):
            for x in v.values():
                go(x)
    go(value)
    return done[0]


def intern_leaves(value, m):
    """Make equal date / datetime / path leaves the very same Python object
    (as `x.end = x.start` or a module-level constant does). The value stays
    tree-shaped: those leaves are immutable scalars. Returns (value, number of
    leaves that were replaced by an earlier equal one)."""
    import datetime
    import pathlib
    from yv.common import is_gen_obj
    pool = {}
    n = [0]

    def stringlike(v):
        return hasattr(type(v), '_yv_strlike')

    def leaf(v):
        if type(v) in (datetime.date, datetime.datetime) or isinstance(v, pathlib.PurePath) \
                or stringlike(v):
            # a string-like object is written as a scalar: a leaf like a str
            k = (type(v), str(v)) if stringlike(v) else (type(v), v)
            if k in pool:
                if pool[k] is not v:
                    n[0] += 1
                return pool[k]
            pool[k] = v
        else:
            go(v)
        return v

    def go(v):
        if is_gen_obj(v):
            c = m.by[type(v).__name__]
            for p in c.get('params', []):
                if hasattr(v, p['name']):
                    x = getattr(v, p['name'])
                    y = leaf(x)
                    if y is not x:
                        setattr(v, p['name'], y)
            ex = getattr(v, '_yatiml_extra', None)
            if isinstance(ex, dict):
                for k in list(ex):
                    ex[k] = leaf(ex[k])
        elif isinstance(v, list):
            for i, x in enumerate(v):
                v[i] = leaf(x)
        elif isinstance(v, dict):
            for k in list(v):
                v[k] = leaf(v[k])
    value = leaf(value)
    return value, n[0]
