"""Validity predicates on loaded values: conformance to a type expression."""
import datetime
import pathlib
from collections import OrderedDict

from yv.common import is_gen_obj

PLAIN_SCALARS = (str, int, float, bool, type(None), datetime.date,
                 datetime.datetime, bytes)


def is_plain(v, why=None, path='$'):
    """dict/list/built-in scalars only (no instance of any generated class)."""
    if type(v) in PLAIN_SCALARS:
        return True
    if type(v) is list:
        return all(is_plain(x, why, '%s[%d]' % (path, i)) for i, x in enumerate(v))
    if type(v) in (dict, OrderedDict):
        return all(is_plain(k, why, path + '.<key>') and is_plain(x, why, '%s.%s' % (path, k))
                   for k, x in v.items())
    if type(v) is set:      # !!set below Any is a core-schema collection
        return all(is_plain(x, why, path + '{}') for x in v)
    if type(v) is tuple:    # !!pairs / !!omap items
        return all(is_plain(x, why, path + '()') for x in v)
    if why is not None:
        why.append('%s holds a %s: %r' % (path, type(v).__name__, v))
    return False


def admissible_classes(spec):
    """Names of classes that some position of the type model admits."""
    by = {c['name']: c for c in spec['classes']}
    out = set()

    def desc(n):
        for c in spec['classes']:
            if n in c.get('bases', []) and c['name'] not in out:
                out.add(c['name'])
                walk_class(c['name'])
                desc(c['name'])

    def walk_type(t):
        if isinstance(t, list):
            if t[0] == 'ref':
                if t[1] not in out:
                    out.add(t[1])
                    walk_class(t[1])
                desc(t[1])
            else:
                for x in t[1:]:
                    walk_type(x)

    def walk_class(n):
        for p in by[n].get('params', []):
            walk_type(p.get('type'))
    walk_type(spec['doc_type'])
    return out


class Conf:
    def __init__(self, model):
        self.m = model
        self.spec = model.spec
        self.by = model.by
        reg = {c.__name__ for c in model.registered}
        dt = self.spec['doc_type']
        if isinstance(dt, list) and dt[0] == 'ref':
            reg.add(dt[1])
        self.reg = reg

    def descendants(self, name):
        out = [name]
        changed = True
        while changed:
            changed = False
            for c in self.spec['classes']:
                if c['name'] not in out and any(b in out for b in c.get('bases', [])):
                    out.append(c['name'])
                    changed = True
        return out

    def conforms(self, v, t, why, path='$'):
        ok = self._conf(v, t, why, path)
        return ok

    def _fail(self, why, path, v, t):
        why.append('%s: %r (%s) does not conform to %r' % (
            path, v, type(v).__name__, t))
        return False

    def _conf(self, v, t, why, path):
        if t is None or t == 'any':
            w = []
            if not is_plain(v, w, path):
                why.extend(w or ['%s not plain' % path])
                return False
            return True
        if isinstance(t, str):
            ok = {
                'str': type(v) is str, 'int': type(v) is int,
                'float': type(v) is float, 'bool': type(v) is bool,
                'buf': type(v) is bool, 'none': v is None,
                'date': isinstance(v, datetime.date),
                'path': isinstance(v, pathlib.PurePath),
            }[t]
            return ok or self._fail(why, path, v, t)
        k = t[0]
        if k in ('list', 'seq', 'mseq'):
            if type(v) is not list:
                return self._fail(why, path, v, t)
            return all(self._conf(x, t[1], why, '%s[%d]' % (path, i))
                       for i, x in enumerate(v))
        if k in ('dict', 'map', 'mmap'):
            if type(v) not in (dict, OrderedDict):
                return self._fail(why, path, v, t)
            return all(self._conf(a, t[1], why, path + '.<key>')
                       and self._conf(b, t[2], why, '%s.%s' % (path, a))
                       for a, b in v.items())
        if k == 'opt':
            if v is None:
                return True
            return self._conf(v, t[1], why, path)
        if k == 'union':
            for mt in t[1:]:
                w = []
                if self._conf(v, mt, w, path):
                    return True
            return self._fail(why, path, v, t)
        if k == 'ref':
            c = self.by[t[1]]
            kind = c.get('kind', 'obj')
            cls = self.m.classes[t[1]]
            if kind != 'obj':
                return type(v) is cls or self._fail(why, path, v, t)
            if not is_gen_obj(v):
                return self._fail(why, path, v, t)
            tn = type(v).__name__
            if tn not in self.descendants(t[1]):
                return self._fail(why, path, v, t)
            vc = self.by[tn]
            if vc.get('abstract') or tn not in self.reg:
                why.append('%s: object of abstract/unregistered class %s' % (path, tn))
                return False
            # attributes as stored by the generated __init__
            for p in vc.get('params', []):
                a = getattr(v, p['name'], '<unset>')
                if not self._conf(a, p.get('type'), why, '%s.%s' % (path, p['name'])):
                    return False
            if vc.get('extra'):
                ex = v._yatiml_extra
                if type(ex) is not OrderedDict:
                    why.append('%s._yatiml_extra is %s' % (path, type(ex).__name__))
                    return False
                for a, b in ex.items():
                    if type(a) is not str:
                        why.append('%s._yatiml_extra key %r' % (path, a))
                        return False
                    w = []
                    if not is_plain(b, w, '%s._yatiml_extra.%s' % (path, a)):
                        why.extend(w)
                        return False
            return True
        raise ValueError(t)

    def check_init_log(self, why):
        """Every logged constructor call received conforming arguments."""
        for entry in self.m.log:
            if entry[0] != 'init':
                continue
            _, defined, actual, kw = entry
            c = self.by.get(actual)
            if c is None:
                continue
            if c.get('kind', 'obj') != 'obj':
                if type(kw.get('value')) is not str:
                    why.append('string-like %s constructed from %r' % (actual, kw.get('value')))
                    return False
                continue
            for p in c.get('params', []):
                if p['name'] not in kw:
                    continue
                if not self._conf(kw[p['name']], p.get('type'), why,
                                  '%s.__init__(%s=)' % (actual, p['name'])):
                    return False
            if c.get('extra'):
                ex = kw.get('_yatiml_extra')
                if ex is not None:
                    if type(ex) is not OrderedDict or not is_plain(ex, why, actual + '._yatiml_extra'):
                        why.append('%s.__init__ got _yatiml_extra=%r' % (actual, ex))
                        return False
        return True
