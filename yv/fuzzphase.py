"""Coverage-guided fuzzing phase (atheris / libFuzzer), thorough tier only.

Each shard runs one fuzz_load.py process (`-seed` derived from VERIF_SEED and
the shard, `-runs=N`, fresh corpus directory under .scratch/ seeded with a few
small valid documents - so a campaign is pinned only approximately; the saved
artifact is the reproducible unit). The generator yields one statistics case
and one case per artifact; the property's own check() judges the artifacts, so
a fuzz finding becomes an ordinary finding with a replay file.
"""
import os
import re
import shutil
import subprocess
import sys

from yv import portfolio
from yv.runner import EnumPhase

ROOT = os.path.dirname(os.path.dirname(os.path.abspath(__file__)))
TOKENS = ['a', 'b', 'x', '1', '1.5', 'true', '~', 'null', ': ', '- ', '? ', ', ', '[', ']', '{', '}',
          '&a ', '*a', '!A ', '!P ', '!Trap ', '!!int ', '!!str ', '!!bool ', '!!float ',
          '!!timestamp ', '!!binary ', '!!set ', '!!omap ', '!!map ', '!!seq ', '!Unknown ',
          '!!python/object:yv_canary.Thing ', '!!python/object/apply:yv_canary.boom ',
          '!!python/name:yv_canary.boom ', '!!python/module:yv_canary ', '<<: ', '"', "'", '|',
          '>', '---', '...', '0x_', '0x1F', '2001-13-45', '2001-01-01', '.inf', 'some_key: ',
          'some-key: ', 'items: ', 'p: ', 'n: ', 'center: ', 'forbidden: 1', 'seven']
SEEDS = ['{a: 1}', '{a: 1, b: x}', '{x: 1.5, y: 2.0}', '[{x: 1.0}, {a: 2}]', '{some_key: 1, col: red}',
         '{p: {a: 1}, n: [1, {k: v}], v: {x: 1.0}}', '{k: red, j: ~}', '{n: seven, when: 2001-01-01}',
         '{center: {x: 1.0}, radius: 2.5}', '[1, true, x]', '{some-key: 3, note: &n [1, 2], u: *n}',
         '{a: 1, b: [2]}', '&x {a: 1}', '{k: &v 1, j: *v}', 'null', '1.5e3']


def available():
    return os.path.isdir(os.path.join(ROOT, '.deps', 'atheris'))


def fuzz_phase(prop_id, runs, max_len=200):
    names = sorted(portfolio.FUZZ_MODELS)

    def gen(shard, nshards):
        if not available():
            yield {'fuzz_stats': {'skipped': 'atheris not installed (setup.sh)'}}
            return
        seed = int(os.environ.get('VERIF_SEED', '1') or 1)
        d = os.path.join(ROOT, '.scratch', 'fuzz_%s_%d_%d' % (prop_id, os.getpid(), shard))
        shutil.rmtree(d, ignore_errors=True)
        corpus = os.path.join(d, 'corpus')
        os.makedirs(corpus)
        os.makedirs(os.path.join(d, 'art'))
        # half of the shards start from an empty corpus
        if shard % 2 == 0:
            for i, n in enumerate(names):
                for j, s in enumerate(SEEDS):
                    if (i + j + shard) % 4 == 0:
                        with open(os.path.join(corpus, 's_%d_%d' % (i, j)), 'wb') as f:
                            f.write(bytes([i]) + s.encode())
        with open(os.path.join(d, 'dict.txt'), 'w') as f:
            for k, t in enumerate(TOKENS):
                f.write('t%d="%s"\n' % (k, t.replace('\\', '\\\\').replace('"', '\\"')))
        env = dict(os.environ, FUZZ_ORACLE=prop_id)
        cmd = [sys.executable, os.path.join(ROOT, 'fuzz', 'fuzz_load.py'),
               '-runs=%d' % runs, '-max_len=%d' % max_len,
               '-seed=%d' % ((seed * 1000 + shard) % (2 ** 31 - 1) + 1),
               '-artifact_prefix=' + os.path.join(d, 'art') + os.sep,
               '-dict=' + os.path.join(d, 'dict.txt'), '-print_final_stats=1', corpus]
        try:
            p = subprocess.run(cmd, stdout=subprocess.PIPE, stderr=subprocess.STDOUT, env=env,
                               timeout=1500)
            out = p.stdout.decode('utf-8', 'replace')
        except subprocess.TimeoutExpired as e:
            out = (e.stdout or b'').decode('utf-8', 'replace')
        if 'Traceback (most recent call last)' in out and 'Violation' not in out:
            # the target itself is broken: a harness error, never a finding
            raise RuntimeError('fuzz target failed:\n' + out[-1500:])
        m = re.search(r'stat::number_of_executed_units:\s*(\d+)', out)
        execs = int(m.group(1)) if m else 0
        cov = re.findall(r'cov: (\d+)', out)
        stats = {'execs': execs, 'cov': int(cov[-1]) if cov else 0,
                 'corpus': 'seeded' if shard % 2 == 0 else 'empty',
                 'corpus_files': len(os.listdir(corpus))}
        yield {'fuzz_stats': stats}
        arts = sorted(os.listdir(os.path.join(d, 'art')))
        for a in arts:
            with open(os.path.join(d, 'art', a), 'rb') as f:
                data = f.read()
            if len(data) < 2:
                continue
            try:
                text = data[1:].decode('utf-8')
            except UnicodeDecodeError:
                continue
            yield {'fuzz': names[data[0] % len(names)], 'text': text}
        shutil.rmtree(d, ignore_errors=True)
    return EnumPhase('atheris_fuzz_%s' % prop_id, gen,
                     'coverage-guided byte fuzzing of load(text) over %d models, %d runs per '
                     'shard, oracle of %s inside the target (not exhaustive)' % (len(names), runs, prop_id),
                     exhaustive=False)


def note_stats(case, ctx):
    """Common handling of the statistics case; returns True if it was one."""
    st = case.get('fuzz_stats')
    if st is None:
        return False
    if 'skipped' in st:
        ctx.count('fuzz_skipped_no_atheris')
        return True
    ctx.count('fuzz_executions', st['execs'])
    ctx.evaluations += st['execs']
    ctx.count('fuzz_corpus_' + st['corpus'])
    ctx.count('fuzz_edges_covered_summed_over_shards', st['cov'])
    return True


def model_of(case):
    return portfolio.FUZZ_MODELS[case['fuzz']]


def struct_fuzz_phase(prop_id, runs):
    """Coverage-guided *structured* fuzzing: libFuzzer bytes drive the
    property's own Hypothesis strategy (hypothesis.fuzz_one_input), coverage of
    yatiml/ and yaml/ guides it, the property's check() is the oracle."""
    import hashlib
    import json

    def gen(shard, nshards):
        if not available():
            yield {'fuzz_stats': {'skipped': 'atheris not installed (setup.sh)'}}
            return
        seed = int(os.environ.get('VERIF_SEED', '1') or 1)
        d = os.path.join(ROOT, '.scratch', 'sfuzz_%s_%d_%d' % (prop_id, os.getpid(), shard))
        shutil.rmtree(d, ignore_errors=True)
        corpus = os.path.join(d, 'corpus')
        os.makedirs(corpus)
        for i in range(6):
            data = b''.join(hashlib.sha256(b'%d-%d-%d-%d' % (seed, shard, i, j)).digest()
                            for j in range(64 + 32 * i))
            with open(os.path.join(corpus, 'r%d' % i), 'wb') as f:
                f.write(data)
        out_dir = os.path.join(d, 'out')
        cmd = [sys.executable, os.path.join(ROOT, 'fuzz', 'fuzz_prop.py'), prop_id, out_dir,
               '-runs=%d' % runs, '-max_len=8192', '-seed=%d' % ((seed * 1000 + shard) % (2 ** 31 - 1) + 1),
               '-artifact_prefix=' + os.path.join(d, 'art_'), '-print_final_stats=1', corpus]
        try:
            p = subprocess.run(cmd, stdout=subprocess.PIPE, stderr=subprocess.STDOUT, timeout=1500)
            out = p.stdout.decode('utf-8', 'replace')
        except subprocess.TimeoutExpired as e:
            out = (e.stdout or b'').decode('utf-8', 'replace')
        cases = sorted(f for f in os.listdir(out_dir) if f.startswith('case_')) \
            if os.path.isdir(out_dir) else []
        if 'Traceback (most recent call last)' in out and 'Violation' not in out and not cases:
            raise RuntimeError('structured fuzz target failed:\n' + out[-1500:])
        m = re.search(r'stat::number_of_executed_units:\s*(\d+)', out)
        n = 0
        try:
            n = int(open(os.path.join(out_dir, 'count.txt')).read())
        except Exception:
            pass
        cov = re.findall(r'cov: (\d+)', out)
        yield {'fuzz_stats': {'execs': n, 'cov': int(cov[-1]) if cov else 0, 'corpus': 'seeded',
                              'corpus_files': len(os.listdir(corpus)),
                              'libfuzzer_units': int(m.group(1)) if m else 0}}
        for c in cases:
            with open(os.path.join(out_dir, c)) as f:
                yield json.load(f)['case']
        shutil.rmtree(d, ignore_errors=True)
    return EnumPhase('atheris_structured_%s' % prop_id, gen,
                     'coverage-guided fuzzing of the property\'s own (model, document/value) '
                     'strategy through hypothesis.fuzz_one_input, %d libFuzzer runs per shard '
                     '(not exhaustive)' % runs, exhaustive=False)
