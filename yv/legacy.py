"""Run a property's check(case, ctx) in a child interpreter whose locale
encoding is not UTF-8 (LC_ALL=C, UTF-8 mode and C-locale coercion off): what
Path.open() uses on a legacy locale, or on Windows with a cp125x code page.

Parent side: Child(prop_id).run(case) -> dict(finding=None|[clause, sig, detail],
counts={}, nontriv=[hashes], samples=[[label, obj]], encoding=str).
Child side: `python -m yv.legacy C12` reads one JSON case per line.
"""
import importlib
import json
import os
import subprocess
import sys

from yv.common import Ctx, Harness, Violation

ENV = {'LC_ALL': 'C', 'LANG': 'C', 'PYTHONUTF8': '0', 'PYTHONCOERCECLOCALE': '0',
       'YV_LEGACY_CHILD': '1'}

_children = {}


def in_child():
    return os.environ.get('YV_LEGACY_CHILD') == '1'


class Child:
    def __init__(self, prop_id):
        env = dict(os.environ)
        env.update(ENV)
        self.p = subprocess.Popen(
            [sys.executable, '-m', 'yv.legacy', prop_id],
            stdin=subprocess.PIPE, stdout=subprocess.PIPE, env=env)
        hello = json.loads(self.p.stdout.readline().decode('ascii'))
        self.encoding = hello['encoding']

    def run(self, case):
        self.p.stdin.write(json.dumps(case, ensure_ascii=True).encode('ascii') + b'\n')
        self.p.stdin.flush()
        line = self.p.stdout.readline()
        if not line:
            raise Harness('legacy-locale child died (exit %s)' % self.p.poll())
        out = json.loads(line.decode('ascii'))
        if out.get('harness'):
            raise Harness('legacy-locale child: ' + out['harness'])
        return out


def child(prop_id):
    key = (os.getpid(), prop_id)
    if key not in _children:
        _children[key] = Child(prop_id)
    return _children[key]


def forward(prop_id, case, ctx, tag='C_locale'):
    """Run the case in the child and replay its accounting / finding on ctx."""
    ch = child(prop_id)
    if ch.encoding.lower().replace('-', '') in ('utf8',):
        ctx.count('legacy_locale_unavailable')
        return
    out = ch.run(case)
    for k, n in out['counts'].items():
        ctx.count('%s[%s]' % (k, tag), n)
    for h in out['nontriv']:
        ctx.nontriv(h)
    for label, obj in out['samples']:
        ctx.sample('%s[%s]' % (label, tag), obj)
    if out['finding']:
        clause, sig, detail = out['finding']
        ctx.finding(clause, '%s:%s' % (tag, sig),
                    'with locale encoding %s (LC_ALL=C, UTF-8 mode off): %s'
                    % (ch.encoding, detail))


def main():
    import locale
    prop = importlib.import_module('yv.props.' + sys.argv[1].lower())
    out = sys.stdout.buffer
    out.write(json.dumps({'encoding': locale.getpreferredencoding(False)}).encode('ascii') + b'\n')
    out.flush()
    for line in sys.stdin.buffer:
        case = json.loads(line.decode('ascii'))
        ctx = Ctx(prop.ID, {})
        res = {'finding': None}
        try:
            prop.check(case, ctx)
        except Violation as v:
            f = v.finding
            res['finding'] = [f['clause'], f['signature'].split(':', 1)[1], f['detail']]
        except Exception as e:     # harness defect, reported as such
            import traceback
            res['harness'] = traceback.format_exc()[-1500:]
        res['counts'] = ctx.classes
        res['nontriv'] = sorted(ctx.nontrivial)
        res['samples'] = [[l, o] for l, o in ctx.samples]
        out.write(json.dumps(res, ensure_ascii=True, default=repr).encode('ascii') + b'\n')
        out.flush()


if __name__ == '__main__':
    main()
