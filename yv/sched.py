"""Deterministic thread scheduler owned by the harness (C11).

k calls run in k threads; every Python line executed inside yatiml/ or yaml/
is a yield point (sys.settrace). Exactly one thread holds the turn; after its
quantum of yield points the turn passes to the thread named by the next entry
of the schedule (a list of (thread, quantum) pairs drawn by Hypothesis). So a
schedule is an interleaving of Python lines, reproducible from the case.
"""
import sys
import threading


class Deadlock(Exception):
    pass


class Sched:
    def __init__(self, n, schedule, packages=('/yatiml/', '/yaml/')):
        self.turn = None
        self.cv = threading.Condition()
        self.alive = set(range(n))
        self.schedule = [tuple(x) for x in schedule]
        self.steps = 0
        self.switches = 0
        self.quantum = 0
        self.packages = packages

    def tracer(self, tid):
        def local(frame, event, arg):
            if event == 'line':
                self.yield_point(tid)
            return local

        def glob(frame, event, arg):
            fn = frame.f_code.co_filename
            for p in self.packages:
                if p in fn:
                    return local
            return None
        return glob

    def yield_point(self, tid):
        with self.cv:
            self.steps += 1
            self.quantum -= 1
            if self.quantum <= 0:
                self.pick_next(tid)
            while self.turn != tid:
                if not self.cv.wait(20):
                    raise Deadlock('scheduler wait timed out')

    def pick_next(self, cur):
        if not self.alive:
            return
        if self.schedule:
            t, q = self.schedule.pop(0)
        else:
            t, q = cur if cur in self.alive else 0, 10 ** 9
        alive = sorted(self.alive)
        t = alive[t % len(alive)] if t not in self.alive else t
        if t != cur:
            self.switches += 1
        self.turn = t
        self.quantum = max(1, q)
        self.cv.notify_all()

    def run(self, fns):
        res = [None] * len(fns)

        def body(i):
            with self.cv:
                while self.turn != i:
                    if not self.cv.wait(20):
                        res[i] = ('deadlock', None)
                        return
            sys.settrace(self.tracer(i))
            try:
                try:
                    res[i] = ('ok', fns[i]())
                except Deadlock:
                    res[i] = ('deadlock', None)
                except BaseException as e:     # outcome of the call
                    res[i] = ('raised', e)
            finally:
                sys.settrace(None)
                with self.cv:
                    self.alive.discard(i)
                    self.pick_next(i)
        ths = [threading.Thread(target=body, args=(i,), daemon=True)
               for i in range(len(fns))]
        for t in ths:
            t.start()
        with self.cv:
            self.quantum = 0
            self.pick_next(-1)
        for t in ths:
            t.join(60)
        if any(t.is_alive() for t in ths) or any(r is not None and r[0] == 'deadlock' for r in res):
            raise Deadlock('threads did not finish')
        return res
