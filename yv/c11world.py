"""C11 support: fixed models that share class names, document/value pools, the
step interpreter ("World") and the pristine oracle server.

Run as a script (python -m yv.c11world) it is the oracle server: a fresh
interpreter that first records PyYAML's tables and probe answers *before*
importing yatiml, then answers queries, each in a forked child that builds the
model from its spec, performs the single call and returns the canonical outcome.
"""
import json
import os
import sys

# ---------------------------------------------------------------------------
# models: deliberately overlapping class names with different signatures
A0 = {'name': 'A', 'kind': 'obj', 'bases': [], 'params': [{'name': 'a', 'type': 'int'}]}
B0 = {'name': 'B', 'kind': 'obj', 'bases': [], 'params': [
    {'name': 'x', 'type': ['ref', 'A']}, {'name': 'n', 'type': 'any', 'default': ['none']}]}
A1 = {'name': 'A', 'kind': 'obj', 'bases': [], 'params': [
    {'name': 'a', 'type': 'str'}, {'name': 'b', 'type': 'int', 'default': ['int', 0]},
    {'name': 'c', 'type': 'str', 'default': ['str', 'dflt']}],
    'defaults_override': [['b', ['int', 0]]],       # c is deliberately not listed
    'sweeten': [['remove_defaults']]}
COL = {'name': 'Color', 'kind': 'enum', 'members': ['red', 'green']}
A2 = {'name': 'A', 'kind': 'obj', 'bases': [], 'extra': 'required', 'params': [
    {'name': 'a', 'type': 'int'}], 'savorize': [['dashes_to_unders']]}
S2 = {'name': 'S', 'kind': 'userstring'}
B2 = {'name': 'B', 'kind': 'obj', 'bases': ['A'], 'extra': 'required', 'params': [
    {'name': 'a', 'type': 'int'}, {'name': 's', 'type': ['ref', 'S']}]}
MODELS = [
    {'classes': [A0, B0], 'order': ['A', 'B']},
    {'classes': [A1, COL], 'order': ['Color', 'A']},
    {'classes': [A2, S2, B2], 'order': ['B', 'S', 'A']},
    # a root class that accepts anything (the documented `_yatiml_recognize: pass`)
    {'classes': [{'name': 'U', 'kind': 'obj', 'bases': [], 'recognize': 'permissive',
                  'params': [{'name': 'a', 'type': 'any', 'default': ['none']}]}], 'order': ['U']},
]
DOC_TYPES = [
    [['ref', 'A'], ['ref', 'B'], ['list', ['ref', 'A']], 'any'],
    [['ref', 'A'], ['dict', 'str', ['ref', 'A']], ['ref', 'Color'], ['union', ['ref', 'A'], 'int']],
    [['ref', 'A'], ['list', ['ref', 'A']], ['ref', 'S'], 'any'],
    ['any', ['dict', 'str', 'int'], ['ref', 'U'], ['opt', 'float']],
]
# "model 4": the classes of model 2, registered without the base class A (a
# function that knows only B and S must not apply A's hooks)
PARTIAL = 4
PARTIAL_OF = 2
PARTIAL_WITHOUT = 'A'
DOC_TYPES.append([['ref', 'B'], ['list', ['ref', 'B']], ['ref', 'S'], ['dict', 'str', ['ref', 'B']]])
DOCS = ['{a: 1}', '{a: x}', '{a: 1, b: 2}', '{x: {a: 1}}', '[{a: 1}, {a: 2}]', 'red',
        '!A {a: 1}', '!B {x: {a: 1}}', '{x: {a: 1}, n: !A {a: 1}}', '{k: !A {a: 1}}',
        'yes', '1e5', '{a: 1, zz: 2}', '&x [*x]', '', '{a: 1, s: hello, some-key: 3}',
        '{k: {a: q}}', '[a, b]', '{k: 1}', '1.5', ': :', '!Color red', '{a: [}',
        '{x: &n {a: 1}, n: *n}', '[{a: 1, s: x, some-key: 3}]', '{k: {a: 2, s: y, other-key: z}}',
        '# only a comment\n', '~']
VALUES = [
    [['obj', 'A', [['a', ['int', 1]]], None],
     ['obj', 'B', [['x', ['obj', 'A', [['a', ['int', 2]]], None]], ['n', ['list', [['str', '1e5'], ['none']]]]], None],
     ['list', [['obj', 'A', [['a', ['int', 3]]], None], ['obj', 'A', [['a', ['int', 4]]], None]]],
     ['twice', ['obj', 'A', [['a', ['int', 7]]], None]]],
    [['obj', 'A', [['a', ['str', 'yes']]], None],
     ['obj', 'A', [['a', ['str', 'x']], ['b', ['int', 5]]], None],
     ['enum', 'Color', 'green'],
     ['dict', [[['str', 'k'], ['obj', 'A', [['a', ['str', '1e5']]], None]]]]],
    [['obj', 'A', [['a', ['int', 1]]], [['zz', ['int', 2]]]],
     ['obj', 'B', [['a', ['int', 1]], ['s', ['strlike', 'S', 'hello']]], []],
     ['strlike', 'S', 'true'],
     ['twice', ['obj', 'B', [['a', ['int', 1]], ['s', ['strlike', 'S', 'hello']]], []]]],
    [['dict', [[['str', 'k'], ['int', 1]]]], ['list', [['str', 'yes'], ['float', '1.5'], ['none']]],
     ['float', '1e+16'], ['str', 'é'], ['shared']],
]
JSON_OPTS = [{}, {'indent': 2}, {'ensure_ascii': False}]

PROBE_LOAD = ['yes', 'no', 'on', '1e5', '1.5', '1_000', '0x1F', '1:30', '.inf', 'true', '~',
              '2001-01-01', '{a: [1, 2], b: {c: d}}', '!!python/name:os.getcwd', '!A {a: 1}',
              '&x [*x, 1]', '1.2.3', 'trueish', '!!set {a, b}', '!!binary aGk=']
PROBE_DUMP = [True, 'yes', '1e5', 1.5, {'b': 1, 'a': 2}, [None, 'null', '~'], '1_000', 'é',
              float('inf'), 1e16, '0x1F', {'k': [1, {'x': 'y'}]}, 'a: b', '']


def table_snapshot(yaml, extra=()):
    """JSON-able snapshot of PyYAML's class-level registries."""
    out = {}
    classes = [('yaml.SafeLoader', yaml.SafeLoader), ('yaml.Loader', yaml.Loader),
               ('yaml.FullLoader', yaml.FullLoader), ('yaml.BaseLoader', yaml.BaseLoader),
               ('yaml.UnsafeLoader', yaml.UnsafeLoader), ('yaml.SafeDumper', yaml.SafeDumper),
               ('yaml.Dumper', yaml.Dumper), ('yaml.BaseDumper', yaml.BaseDumper),
               ('yaml.resolver.Resolver', yaml.resolver.Resolver),
               ('yaml.resolver.BaseResolver', yaml.resolver.BaseResolver),
               ('yaml.constructor.SafeConstructor', yaml.constructor.SafeConstructor),
               ('yaml.constructor.BaseConstructor', yaml.constructor.BaseConstructor),
               ('yaml.representer.SafeRepresenter', yaml.representer.SafeRepresenter),
               ('yaml.representer.BaseRepresenter', yaml.representer.BaseRepresenter)] + list(extra)
    for name, cls in classes:
        for attr in ('yaml_constructors', 'yaml_multi_constructors', 'yaml_representers',
                     'yaml_multi_representers', 'yaml_implicit_resolvers', 'yaml_path_resolvers'):
            t = getattr(cls, attr, None)
            if t is None:
                continue
            if attr == 'yaml_implicit_resolvers':
                snap = {repr(k): [[tag, rx.pattern] for tag, rx in v] for k, v in t.items()}
            else:
                snap = {repr(k): getattr(v, '__qualname__', type(v).__name__) for k, v in t.items()}
            out['%s.%s' % (name, attr)] = snap
    return out


def probe(yaml):
    out = {'load': [], 'dump': []}
    for d in PROBE_LOAD:
        try:
            out['load'].append(['ok', repr(yaml.safe_load(d))])
        except Exception as e:
            out['load'].append(['err', type(e).__name__])
    for v in PROBE_DUMP:
        try:
            out['dump'].append(['ok', yaml.safe_dump(v)])
        except Exception as e:
            out['dump'].append(['err', type(e).__name__])
    return out


# ---------------------------------------------------------------------------
def make_value(m, vs):
    """Value spec -> value; ['shared'] is plain data with a list referenced
    twice (YAML dumps it with an anchor, JSON refuses it half-way through)."""
    if vs == ['shared']:
        shared = [1, 'x']
        return {'k': [shared, {'again': shared}]}
    if vs[0] == 'twice':
        # one object referenced twice (YAML: anchor and alias)
        x = m.realize(vs[1])
        return [x, x]
    return m.realize(vs)


def partial_load_function(m, ti):
    import yatiml
    regs = [c for c in m.registered if c.__name__ != PARTIAL_WITHOUT]
    return yatiml.load_function(m.ty(DOC_TYPES[PARTIAL][ti]), *regs)


def do_query(q):
    """Perform one call on freshly built classes/functions; canonical outcome."""
    import yaml
    import yatiml
    from yv import models
    from yv.common import canon
    kind = q[0]
    if kind == 'load':
        _, mi, ti, di = q
        if mi == PARTIAL:
            m = models.Model(dict(MODELS[PARTIAL_OF], doc_type='any'))
            fn = partial_load_function(m, ti)
        else:
            m = models.Model(dict(MODELS[mi], doc_type=DOC_TYPES[mi][ti]))
            fn = m.load
        return outcome(lambda: canon(fn(DOCS[di])))
    if kind == 'dump':
        _, mi, dk, vm, vi, oi = q
        m = models.Model(dict(MODELS[mi], doc_type='any'))
        mv = m if vm == mi else models.Model(dict(MODELS[vm], doc_type='any'))
        value = make_value(mv, VALUES[vm][vi])
        fn = m.dumps if dk == 'yaml' else m.dumps_json
        kw = JSON_OPTS[oi] if dk == 'json' else {}
        return outcome(lambda: fn(value, **kw))
    raise ValueError(q)


def outcome(fn):
    try:
        return ['ok', fn()]
    except BaseException as e:
        return ['err', classify(e)]


def classify(e):
    import yaml
    import yatiml
    if isinstance(e, yatiml.RecognitionError):
        return 'RecognitionError'
    if isinstance(e, yaml.YAMLError):
        return 'YAMLError:' + type(e).__name__
    return type(e).__name__


def serve():
    """Oracle server main loop (fresh interpreter)."""
    import yaml
    base = {'tables': table_snapshot(yaml), 'probe': probe(yaml)}
    import yatiml      # noqa: F401  (only now)
    import yatiml.loader
    import yatiml.dumper
    base['yatiml_tables'] = table_snapshot(yaml, [
        ('yatiml.loader.Loader', yatiml.loader.Loader),
        ('yatiml.dumper.Dumper', yatiml.dumper.Dumper)])
    out = sys.stdout
    for line in sys.stdin:
        line = line.strip()
        if not line:
            continue
        q = json.loads(line)
        if q == ['baseline']:
            out.write(json.dumps(base) + '\n')
            out.flush()
            continue
        r, w = os.pipe()
        pid = os.fork()
        if pid == 0:
            os.close(r)
            try:
                res = do_query(q)
            except BaseException as e:
                res = ['harness', repr(e)]
            with os.fdopen(w, 'w') as f:
                f.write(json.dumps(res, default=repr))
            os._exit(0)
        os.close(w)
        with os.fdopen(r) as f:
            data = f.read()
        os.waitpid(pid, 0)
        out.write((data or json.dumps(['harness', 'child died'])) + '\n')
        out.flush()


class Oracle:
    """Client side: lazily started server + per-process cache."""

    def __init__(self):
        self.proc = None
        self.pid = None
        self.cache = {}

    def start(self):
        import subprocess
        if self.proc is not None and self.pid != os.getpid():
            # inherited through fork() from the process that replayed the corpus:
            # sharing one pipe between processes would mix up the answers
            self.proc = None
        if self.proc is None:
            self.pid = os.getpid()
            env = dict(os.environ)
            self.proc = subprocess.Popen(
                [sys.executable, '-m', 'yv.c11world'], stdin=subprocess.PIPE,
                stdout=subprocess.PIPE, text=True, env=env, bufsize=1)

    def ask(self, q):
        key = json.dumps(q)
        if key not in self.cache:
            self.start()
            self.proc.stdin.write(key + '\n')
            self.proc.stdin.flush()
            line = self.proc.stdout.readline()
            if not line:
                raise RuntimeError('oracle server died')
            res = json.loads(line)
            if isinstance(res, list) and res and res[0] == 'harness':
                raise RuntimeError('oracle server: %s' % res[1])
            self.cache[key] = res
        return self.cache[key]

    def close(self):
        if self.proc is not None:
            try:
                self.proc.stdin.close()
                self.proc.wait(5)
            except Exception:
                self.proc.kill()
            self.proc = None


if __name__ == '__main__':
    serve()
