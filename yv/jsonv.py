"""A strict RFC 8259 recursive-descent JSON parser (second, independent judge
next to Python's json.loads): no NaN/Infinity, no bare control characters in
strings, strict number grammar, nothing but whitespace around the value.
Returns the value (ints as int, numbers with fraction/exponent as float, objects
as lists of pairs to keep order and duplicates) and whether any whitespace
occurred outside string literals."""


class JsonError(ValueError):
    pass


WS = ' \t\n\r'
HEX = '0123456789abcdefABCDEF'


class Obj(list):
    """JSON object as an ordered list of (key, value) pairs."""


def parse(text):
    pos = 0
    n = len(text)
    ws_seen = [False]

    def skip():
        nonlocal pos
        while pos < n and text[pos] in WS:
            ws_seen[0] = True
            pos += 1

    def err(msg):
        raise JsonError('%s at offset %d: %r' % (msg, pos, text[max(0, pos - 10):pos + 10]))

    def string():
        nonlocal pos
        assert text[pos] == '"'
        pos += 1
        out = []
        while True:
            if pos >= n:
                err('unterminated string')
            ch = text[pos]
            if ch == '"':
                pos += 1
                return ''.join(out)
            if ord(ch) < 0x20:
                err('bare control character in string')
            if ch == '\\':
                pos += 1
                if pos >= n:
                    err('bad escape')
                e = text[pos]
                if e in '"\\/':
                    out.append(e)
                elif e in 'bfnrt':
                    out.append({'b': '\b', 'f': '\f', 'n': '\n', 'r': '\r', 't': '\t'}[e])
                elif e == 'u':
                    h = text[pos + 1:pos + 5]
                    if len(h) != 4 or any(c not in HEX for c in h):
                        err('bad \\u escape')
                    out.append(chr(int(h, 16)))
                    pos += 4
                else:
                    err('bad escape')
                pos += 1
            else:
                out.append(ch)
                pos += 1

    def number():
        nonlocal pos
        start = pos
        if pos < n and text[pos] == '-':
            pos += 1
        if pos >= n:
            err('bad number')
        if text[pos] == '0':
            pos += 1
        elif text[pos] in '123456789':
            while pos < n and text[pos] in '0123456789':
                pos += 1
        else:
            err('bad number')
        is_float = False
        if pos < n and text[pos] == '.':
            is_float = True
            pos += 1
            if pos >= n or text[pos] not in '0123456789':
                err('bad fraction')
            while pos < n and text[pos] in '0123456789':
                pos += 1
        if pos < n and text[pos] in 'eE':
            is_float = True
            pos += 1
            if pos < n and text[pos] in '+-':
                pos += 1
            if pos >= n or text[pos] not in '0123456789':
                err('bad exponent')
            while pos < n and text[pos] in '0123456789':
                pos += 1
        lit = text[start:pos]
        return float(lit) if is_float else int(lit)

    def value():
        nonlocal pos
        skip()
        if pos >= n:
            err('unexpected end')
        ch = text[pos]
        if ch == '"':
            v = string()
        elif ch == '{':
            pos += 1
            v = Obj()
            skip()
            if pos < n and text[pos] == '}':
                pos += 1
            else:
                while True:
                    skip()
                    if pos >= n or text[pos] != '"':
                        err('object key must be a string')
                    k = string()
                    skip()
                    if pos >= n or text[pos] != ':':
                        err('expected colon')
                    pos += 1
                    v.append((k, value()))
                    skip()
                    if pos < n and text[pos] == ',':
                        pos += 1
                        continue
                    if pos < n and text[pos] == '}':
                        pos += 1
                        break
                    err('expected , or }')
        elif ch == '[':
            pos += 1
            v = []
            skip()
            if pos < n and text[pos] == ']':
                pos += 1
            else:
                while True:
                    v.append(value())
                    skip()
                    if pos < n and text[pos] == ',':
                        pos += 1
                        continue
                    if pos < n and text[pos] == ']':
                        pos += 1
                        break
                    err('expected , or ]')
        elif text.startswith('true', pos):
            pos += 4
            v = True
        elif text.startswith('false', pos):
            pos += 5
            v = False
        elif text.startswith('null', pos):
            pos += 4
            v = None
        elif ch == '-' or ch in '0123456789':
            v = number()
        else:
            err('unexpected character')
        return v

    v = value()
    skip()
    if pos != n:
        err('trailing data')
    return v, ws_seen[0]


def fix_surrogates(s):
    """Combine UTF-16 surrogate pairs produced by \\uD83D\\uDE00 escapes."""
    out = []
    i = 0
    while i < len(s):
        c = ord(s[i])
        if 0xD800 <= c <= 0xDBFF and i + 1 < len(s) and 0xDC00 <= ord(s[i + 1]) <= 0xDFFF:
            out.append(chr(0x10000 + ((c - 0xD800) << 10) + (ord(s[i + 1]) - 0xDC00)))
            i += 2
        else:
            out.append(s[i])
            i += 1
    return ''.join(out)


def normalise(v):
    """Obj -> list of pairs with surrogate pairs combined (recursively)."""
    if isinstance(v, Obj):
        return Obj((fix_surrogates(k), normalise(x)) for k, x in v)
    if isinstance(v, list):
        return [normalise(x) for x in v]
    if isinstance(v, str):
        return fix_surrogates(v)
    return v
