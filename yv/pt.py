"""Plain mutable trees (PT) and *reference* implementations of the yatiml.Node
helper operations, written from the docstrings / documentation only (this
module does not import yatiml).

PT:  ['s', tag, text] | ['q', tag, [items]] | ['m', tag, [[key, value], ...]]
tags are full tag strings ('tag:yaml.org,2002:int', '!A').
"""
import copy

TAGP = 'tag:yaml.org,2002:'
STR, INT, FLOAT, BOOL, NULL = (TAGP + x for x in ('str', 'int', 'float', 'bool', 'null'))
SEQ, MAP = TAGP + 'seq', TAGP + 'map'


class RefSeasoningError(Exception):
    """The reference says the documented behaviour is to raise SeasoningError."""


class Unspecified(Exception):
    """The documentation does not say what happens for this input."""


def from_plain(p):
    """Tuple form produced by yv.tree.plain -> mutable PT."""
    if p[0] == 's':
        return ['s', p[1], p[2]]
    if p[0] == 'q':
        return ['q', p[1], [from_plain(i) for i in p[2]]]
    return ['m', p[1], [[from_plain(k), from_plain(v)] for k, v in p[2]]]


def freeze(t):
    if t[0] == 's':
        return ('s', t[1], t[2])
    if t[0] == 'q':
        return ('q', t[1], tuple(freeze(i) for i in t[2]))
    return ('m', t[1], tuple((freeze(k), freeze(v)) for k, v in t[2]))


def s(text, tag=STR):
    return ['s', tag, text]


def scalar_pt(value):
    """PT of a Python scalar as set_attribute / set_value are documented to
    store it (str/int/float/bool/None)."""
    if isinstance(value, bool):
        return ['s', BOOL, 'true' if value else 'false']
    if isinstance(value, str):
        return ['s', STR, value]
    if isinstance(value, int):
        return ['s', INT, str(value)]
    if isinstance(value, float):
        return ['s', FLOAT, str(value)]
    if value is None:
        return ['s', NULL, '']
    raise TypeError(value)


# -- ordered-map accessors -------------------------------------------------
def keys(m):
    return [k[2] if k[0] == 's' else None for k, _ in m[2]]


def index_of(m, name):
    for i, (k, _) in enumerate(m[2]):
        if k[0] == 's' and k[2] == name:
            return i
    return None


def has(m, name):
    return index_of(m, name) is not None


def get(m, name):
    i = index_of(m, name)
    return None if i is None else m[2][i][1]


def set_(m, name, value):
    """Existing keys keep their position, new keys append."""
    i = index_of(m, name)
    if i is not None:
        m[2][i][1] = value
    else:
        m[2].append([s(name), value])


def remove(m, name):
    i = index_of(m, name)
    if i is not None:
        m[2].pop(i)


def rename(m, old, new):
    i = index_of(m, old)
    if i is not None:
        m[2][i][0] = ['s', m[2][i][0][1], new]


def unders_to_dashes(m):
    for k, _ in m[2]:
        if k[0] == 's':
            k[2] = k[2].replace('_', '-')


def dashes_to_unders(m):
    for k, _ in m[2]:
        if k[0] == 's':
            k[2] = k[2].replace('-', '_')


# -- structural transforms -------------------------------------------------
def seq_attribute_to_map(m, attribute, key_attribute, value_attribute=None,
                         strict=True):
    seq = get(m, attribute)
    if seq is None or seq[0] != 'q':
        return
    if any(it[0] != 'm' for it in seq[2]):
        return
    seen = set()
    for it in seq[2]:
        k = get(it, key_attribute)
        if k is None or keys(it).count(key_attribute) != 1:
            raise Unspecified('item without (unique) key attribute')
        if k[0] != 's' or k[1] != STR:
            raise Unspecified('key attribute is not a string')
        if k[2] in seen:
            if strict:
                raise RefSeasoningError('duplicate key')
            return
        seen.add(k[2])
    pairs = []
    for it in seq[2]:
        k = get(it, key_attribute)
        rest = ['m', it[1], [[a, b] for a, b in it[2]
                             if not (a[0] == 's' and a[2] == key_attribute)]]
        if (value_attribute is not None and len(rest[2]) == 1
                and keys(rest) == [value_attribute]):
            pairs.append([k, rest[2][0][1]])
        else:
            pairs.append([k, rest])
    set_(m, attribute, ['m', MAP, pairs])


def map_attribute_to_seq(m, attribute, key_attribute, value_attribute=None):
    mp = get(m, attribute)
    if mp is None or mp[0] != 'm':
        return
    if value_attribute is None and any(v[0] != 'm' for _, v in mp[2]):
        return
    items = []
    for k, v in mp[2]:
        if k[0] != 's':
            raise Unspecified('non-scalar key')
        if v[0] == 'm':
            item = ['m', v[1], [[a, b] for a, b in v[2]]]
        else:
            item = ['m', MAP, [[s(value_attribute), v]]]
        set_(item, key_attribute, s(k[2]))
        items.append(item)
    set_(m, attribute, ['q', SEQ, items])


def index_attribute_to_map(m, attribute, key_attribute, value_attribute=None):
    mp = get(m, attribute)
    if mp is None or mp[0] != 'm':
        return
    if any(v[0] != 'm' for _, v in mp[2]):
        return
    pairs = []
    for k, v in mp[2]:
        rest = ['m', v[1], [[a, b] for a, b in v[2]
                            if not (a[0] == 's' and a[2] == key_attribute)]]
        if (value_attribute is not None and len(rest[2]) == 1
                and keys(rest) == [value_attribute]):
            pairs.append([k, rest[2][0][1]])
        else:
            pairs.append([k, rest])
    mp[2][:] = pairs


def map_attribute_to_index(m, attribute, key_attribute, value_attribute=None):
    mp = get(m, attribute)
    if mp is None or mp[0] != 'm':
        return
    if value_attribute is None and any(v[0] != 'm' for _, v in mp[2]):
        return
    pairs = []
    for k, v in mp[2]:
        if v[0] == 'm':
            item = ['m', v[1], [[a, b] for a, b in v[2]]]
        else:
            item = ['m', MAP, [[s(value_attribute), v]]]
        if not has(item, key_attribute):
            # "the following will *also* work": an item written in full (naming
            # itself) stays as it is
            item[2].append([s(key_attribute), copy.deepcopy(k)])
        pairs.append([k, item])
    mp[2][:] = pairs


# -- scalars ---------------------------------------------------------------
SCALAR_KIND_TAG = {'str': STR, 'int': INT, 'float': FLOAT, 'bool': BOOL,
                   'none': NULL}


def py_kind(v):
    if isinstance(v, bool):
        return 'bool'
    if v is None:
        return 'none'
    if isinstance(v, str):
        return 'str'
    if isinstance(v, int):
        return 'int'
    if isinstance(v, float):
        return 'float'
    return None
