"""Model specs (JSON-able) -> real Python classes, by generating source text.

TypeExpr:  'str'|'int'|'float'|'bool'|'none'|'date'|'path'|'any'|'buf'
           ['list'|'seq'|'mseq', T]  ['dict'|'map'|'mmap', K, T]
           ['union', T...]  ['opt', T]  ['ref', ClassName]
ClassSpec: {name, kind: obj|enum|strsub|userstring|ystring, bases, reg,
            abstract: ''|'abc'|'method', params: [{name, type|None, default?}],
            extra: ''|'required'|'default', members, recognize, savorize,
            sweeten, attrs_hook, init_raises, defaults_override}
Model:     {classes: [ClassSpec], doc_type: TypeExpr, order: [names]}
"""
import abc
import collections
import datetime
import enum
import hashlib
import pathlib
import typing
from collections import OrderedDict, UserString

import yaml

import yatiml

SCALARS = {'str': 'str', 'int': 'int', 'float': 'float', 'bool': 'bool',
           'none': 'None', 'date': 'date', 'path': 'Path', 'any': 'Any',
           'buf': 'bool_union_fix'}
SEQ = {'list': 'List', 'seq': 'Sequence', 'mseq': 'MutableSequence'}
MAP = {'dict': 'Dict', 'map': 'Mapping', 'mmap': 'MutableMapping'}


def type_src(t):
    if isinstance(t, str):
        return SCALARS[t]
    k = t[0]
    if k in SEQ:
        return '%s[%s]' % (SEQ[k], type_src(t[1]))
    if k in MAP:
        return '%s[%s, %s]' % (MAP[k], type_src(t[1]), type_src(t[2]))
    if k == 'union':
        return 'Union[%s]' % ', '.join(type_src(x) for x in t[1:])
    if k == 'opt':
        return 'Optional[%s]' % type_src(t[1])
    if k == 'ref':
        return t[1]
    raise ValueError(t)


def lit_src(v):
    """Python source of a scalar value-spec used as a default / constant."""
    k = v[0]
    if k == 'none':
        return 'None'
    if k == 'str':
        return repr(v[1])
    if k == 'int':
        return repr(int(v[1]))
    if k == 'bool':
        return 'True' if v[1] else 'False'
    if k == 'float':
        return 'float(%r)' % v[1]
    if k == 'enum':
        return '%s[%r]' % (v[1], v[2])
    if k == 'strlike':
        return '%s(%r)' % (v[1], v[2])
    if k == 'list' and not v[1]:
        return '[]'
    raise ValueError(v)


def lit_val(v):
    k = v[0]
    if k == 'none':
        return None
    if k in ('str', 'int', 'bool'):
        return v[1]
    if k == 'float':
        return float(v[1])
    raise ValueError(v)


def digest(node):
    """Short structural digest of a yaml node (for hook traces)."""
    def go(n):
        if isinstance(n, yaml.ScalarNode):
            return 's:%s:%s' % (n.tag.rsplit(':', 1)[-1], n.value)
        if isinstance(n, yaml.SequenceNode):
            return 'q[' + ','.join(go(i) for i in n.value) + ']'
        if isinstance(n, yaml.MappingNode):
            return 'm{' + ','.join(go(k) + '=' + go(v) for k, v in n.value) + '}'
        return repr(n)
    return go(node)


# ---------------------------------------------------------------------------
def _recognize_src(cname, clauses):
    lines = ['    @classmethod',
             '    def _yatiml_recognize(cls, node):',
             '        _yv_log.append(("recognize", %r, cls.__name__, _yv_digest(node.yaml_node)))' % cname]
    if clauses == 'permissive':
        lines.append('        pass')
        return lines
    for c in clauses:
        k = c[0]
        if k == 'mapping':
            lines.append('        node.require_mapping()')
        elif k == 'sequence':
            lines.append('        node.require_sequence()')
        elif k == 'scalar':
            lines.append('        node.require_scalar(%s)' % ', '.join(
                SCALARS[x] for x in c[1]))
        elif k == 'attr':
            lines.append('        node.require_attribute(%r)' % c[1])
        elif k == 'attr_type':
            lines.append('        node.require_attribute(%r, %s)' % (c[1], type_src(c[2])))
        elif k == 'attr_value':
            lines.append('        node.require_attribute_value(%r, %s)' % (c[1], lit_src(c[2])))
        elif k == 'attr_value_not':
            lines.append('        node.require_attribute_value_not(%r, %s)' % (c[1], lit_src(c[2])))
        else:
            raise ValueError(c)
    return lines


def _savorize_src(cname, ops):
    L = ['    @classmethod',
         '    def _yatiml_savorize(cls, node):',
         '        _yv_log.append(("savorize", %r, cls.__name__, _yv_digest(node.yaml_node)))' % cname]
    for op in ops:
        k = op[0]
        if k == 'dashes_to_unders':
            L += ['        if node.is_mapping():',
                  '            node.dashes_to_unders_in_keys()']
        elif k == 'rename':
            L += ['        if node.is_mapping():',
                  '            node.rename_attribute(%r, %r)' % (op[1], op[2])]
        elif k == 'remove':
            L += ['        if node.is_mapping():',
                  '            node.remove_attribute(%r)' % op[1]]
        elif k == 'set_default':
            L += ['        if node.is_mapping() and not node.has_attribute(%r):' % op[1],
                  '            node.set_attribute(%r, %s)' % (op[1], lit_src(op[2]))]
        elif k == 'word_to_int':
            L += ['        if node.is_mapping() and node.has_attribute_type(%r, str):' % op[1],
                  '            _t = %r' % dict(op[2]),
                  '            _v = node.get_attribute(%r).get_value()' % op[1],
                  '            if _v in _t:',
                  '                node.set_attribute(%r, _t[_v])' % op[1]]
        elif k == 'map_to_seq':
            L += ['        if node.is_mapping():',
                  '            node.map_attribute_to_seq(%r, %r, %r)' % (op[1], op[2], op[3])]
        elif k == 'map_to_index':
            L += ['        if node.is_mapping():',
                  '            node.map_attribute_to_index(%r, %r, %r)' % (op[1], op[2], op[3])]
        elif k == 'scalar_to_map':
            L += ['        if node.is_scalar(str):',
                  '            _v = node.get_value()',
                  '            node.make_mapping()',
                  '            node.set_attribute(%r, _v)' % op[1]]
        elif k == 'scalar_to_map_opt':
            L += ['        if node.is_scalar(str) or node.is_scalar(type(None)):',
                  '            _v = node.get_value()',
                  '            node.make_mapping()',
                  '            node.set_attribute(%r, _v)' % op[1]]
        elif k == 'int_add':
            L += ['        if node.is_mapping() and node.has_attribute_type(%r, int):' % op[1],
                  '            node.set_attribute(%r, node.get_attribute(%r).get_value() + %d)' % (op[1], op[1], op[2])]
        elif k == 'seq_to_attrs':
            # an object written as a sequence [v1, v2, ..]: the items become the
            # values of the named attributes (the item nodes are re-used)
            L += ['        if node.is_sequence():',
                  '            _items = node.seq_items()',
                  '            if len(_items) != %d:' % len(op[1]),
                  '                raise yatiml.SeasoningError("Expected %d items")' % len(op[1]),
                  '            node.make_mapping()',
                  '            for _n, _i in zip(%r, _items):' % list(op[1]),
                  '                node.set_attribute(_n, _i.yaml_node)']
        elif k == 'raise_if_has':
            L += ['        if node.is_mapping() and node.has_attribute(%r):' % op[1],
                  '            raise yatiml.SeasoningError("attribute {%s} is not allowed in {0} or {this} context, 100%%")' % op[1]]
        elif k == 'raise_bare_if_has':
            L += ['        if node.is_mapping() and node.has_attribute(%r):' % op[1],
                  '            raise yatiml.SeasoningError()']
        elif k == 'get_missing':
            # documented way to fail: get_attribute on a missing key
            L += ['        if node.is_mapping():',
                  '            node.get_attribute(%r)' % op[1]]
        elif k == 'scalar_upper':
            # docs/recipes "enum_lowercase": members are upper case in Python
            L += ['        if node.is_scalar(str):',
                  '            node.set_value(node.get_value().upper())']
        elif k == 'to_scalar':
            L += ['        node.set_value(%s)' % lit_src(op[1])]
        elif k == 'to_seq':
            L += ['        node.yaml_node = yaml.SequenceNode("tag:yaml.org,2002:seq", [], node.yaml_node.start_mark, node.yaml_node.end_mark)']
        elif k == 'set_wrong':
            L += ['        if node.is_mapping():',
                  '            node.set_attribute(%r, %s)' % (op[1], lit_src(op[2]))]
        else:
            raise ValueError(op)
    return L


def _sweeten_src(cname, ops):
    L = ['    @classmethod',
         '    def _yatiml_sweeten(cls, node):',
         '        _yv_log.append(("sweeten", %r, cls.__name__, _yv_digest(node.yaml_node)))' % cname]
    for op in ops:
        k = op[0]
        if k == 'unders_to_dashes':
            L += ['        if node.is_mapping():',
                  '            node.unders_to_dashes_in_keys()']
        elif k == 'rename':
            L += ['        if node.is_mapping():',
                  '            node.rename_attribute(%r, %r)' % (op[1], op[2])]
        elif k == 'remove':
            L += ['        if node.is_mapping():',
                  '            node.remove_attribute(%r)' % op[1]]
        elif k == 'add':
            L += ['        if node.is_mapping():',
                  '            node.set_attribute(%r, %s)' % (op[1], lit_src(op[2]))]
        elif k == 'int_add':
            L += ['        if node.is_mapping() and node.has_attribute_type(%r, int):' % op[1],
                  '            node.set_attribute(%r, node.get_attribute(%r).get_value() + %d)' % (op[1], op[1], op[2])]
        elif k == 'remove_defaults':
            L += ['        if node.is_mapping():',
                  '            node.remove_attributes_with_default_values(cls)']
        elif k == 'seq_to_map':
            L += ['        if node.is_mapping():',
                  '            node.seq_attribute_to_map(%r, %r, %r)' % (op[1], op[2], op[3])]
        elif k == 'index_to_map':
            L += ['        if node.is_mapping():',
                  '            node.index_attribute_to_map(%r, %r, %r)' % (op[1], op[2], op[3])]
        elif k == 'scalar_lower':
            L += ['        if node.is_scalar(str):',
                  '            node.set_value(node.get_value().lower())']
        elif k == 'map_to_scalar_opt':
            L += ['        if node.is_mapping() and (node.has_attribute_type(%r, str)' % op[1],
                  '                                  or node.has_attribute_type(%r, type(None))):' % op[1],
                  '            node.set_value(node.get_attribute(%r).get_value())' % op[1]]
        elif k == 'map_to_scalar':
            L += ['        if node.is_mapping() and node.has_attribute_type(%r, str):' % op[1],
                  '            node.set_value(node.get_attribute(%r).get_value())' % op[1]]
        elif k == 'int_to_word':
            L += ['        if node.is_mapping() and node.has_attribute_type(%r, int):' % op[1],
                  '            _t = %r' % {v: k_ for k_, v in dict(op[2]).items()},
                  '            _v = node.get_attribute(%r).get_value()' % op[1],
                  '            if _v in _t:',
                  '                node.set_attribute(%r, _t[_v])' % op[1]]
        else:
            raise ValueError(op)
    return L


def _raise_src(cond, indent='        '):
    """init_raises: ['neg', param] | ['eq', param, lit] | ['always'] ; exc class name."""
    if not cond:
        return []
    exc = cond[-1]
    k = cond[0]
    if k == 'always':
        test = 'True'
    elif k == 'neg':
        test = 'isinstance(%s, (int, float)) and not isinstance(%s, bool) and %s < 0' % (cond[1], cond[1], cond[1])
    elif k == 'eq':
        test = '%s == %s and type(%s) is type(%s)' % (cond[1], lit_src(cond[2]), cond[1], lit_src(cond[2]))
    elif k == 'startswith':
        test = 'str(%s).startswith(%r)' % (cond[1], cond[2])
    else:
        raise ValueError(cond)
    return [indent + 'if %s:' % test,
            indent + '    raise %s("constructor of %%s rejects the value {0} {x} 100%%%%" %% type(self).__name__)' % exc]


def class_src(c, all_specs):
    name = c['name']
    kind = c.get('kind', 'obj')
    bases = list(c.get('bases', []))
    L = []
    mix = list(c.get('mixins', []))
    if kind == 'mixin':
        # a plain helper class carrying only hooks (never registered)
        L.append('class %s:' % name)
        L.append('    _yv_mixin = True')
        if c.get('sweeten') is not None:
            L += _sweeten_src(name, c['sweeten'])
        if c.get('savorize') is not None:
            L += _savorize_src(name, c['savorize'])
        if c.get('recognize') is not None:
            L += _recognize_src(name, c['recognize'])
        return L
    if kind == 'enum':
        if c.get('str_mixin'):
            L.append('class %s(%s):' % (name, ', '.join(mix + ['str', 'enum.Enum'])))
            for i, m in enumerate(c['members']):
                # each member's value is the *name* of the next member
                L.append('    %s = %r' % (m, c['members'][(i + 1) % len(c['members'])]))
        else:
            L.append('class %s(%s):' % (name, ', '.join(mix + ['enum.Enum'])))
            for i, m in enumerate(c['members']):
                L.append('    %s = %d' % (m, i + 1))
        if c.get('sweeten') is not None:
            L += _sweeten_src(name, c['sweeten'])
        if c.get('savorize') is not None:
            L += _savorize_src(name, c['savorize'])
        return L
    if kind in ('strsub', 'userstring', 'ystring'):
        base = {'strsub': 'str', 'userstring': 'UserString', 'ystring': 'yatiml.String'}[kind]
        own = (bases + [base]) if not bases else list(bases)
        own = (mix + own) if c.get('mix_first', True) else (own + mix)
        L.append('class %s(%s):' % (name, ', '.join(own)))
        L.append('    _yv_strlike = %r' % name)
        if kind == 'strsub':
            L.append('    def __init__(self, value) -> None:')
            L.append('        _yv_log.append(("init", %r, type(self).__name__, {"value": value}))' % name)
            L += _raise_src(c.get('init_raises'))
        elif kind == 'userstring':
            L.append('    def __init__(self, seq) -> None:')
            L.append('        _yv_log.append(("init", %r, type(self).__name__, {"value": seq}))' % name)
            L += [x.replace('value', 'seq') if 'startswith' in x else x for x in _raise_src(c.get('init_raises'))]
            L.append('        super().__init__(seq)')
        else:
            L.append('    def __init__(self, value: str) -> None:')
            L.append('        _yv_log.append(("init", %r, type(self).__name__, {"value": value}))' % name)
            L += _raise_src(c.get('init_raises'))
            L.append('        self.value = value')
            L.append('    def __str__(self): return self.value')
            L.append('    def __repr__(self): return "%s(%%r)" %% (self.value,)' % name)
            L.append('    def __eq__(self, o): return type(o) is type(self) and o.value == self.value')
            L.append('    def __hash__(self): return hash(self.value)')
        if c.get('sweeten') is not None:
            L += _sweeten_src(name, c['sweeten'])
        if c.get('savorize') is not None:
            L += _savorize_src(name, c['savorize'])
        return L
    # ordinary class
    pybases = list(bases)
    if c.get('abstract') == 'abc':
        pybases.append('abc.ABC')
    if c.get('abstract') == 'method':
        pybases.append('metaclass=abc.ABCMeta')
    L.append('class %s(%s):' % (name, ', '.join(pybases)) if pybases
             else 'class %s:' % name)
    L.append('    _yv_class = %r' % name)
    params = c.get('params', [])
    L.append('    _yv_params = %r' % [p['name'] for p in params])
    L.append('    _yv_extra = %r' % bool(c.get('extra')))
    if c.get('abstract') == 'method':
        L.append('    @abc.abstractmethod')
        L.append('    def _yv_abstract(self): ...')
    elif c.get('_needs_concrete'):
        L.append('    def _yv_abstract(self): return None')
    sig = ['self']
    req = [p for p in params if 'default' not in p]
    opt = [p for p in params if 'default' in p]
    for p in req:
        sig.append(p['name'] + (': ' + type_src(p['type']) if p.get('type') is not None else ''))
    if c.get('extra') == 'required':
        sig.append('_yatiml_extra: OrderedDict')
    if c.get('extra') == 'default_first':
        # defaulted, but not the last parameter
        sig.append('_yatiml_extra: Optional[OrderedDict] = None')
    for p in opt:
        ann = (': ' + type_src(p['type'])) if p.get('type') is not None else ''
        sig.append('%s%s = %s' % (p['name'], ann, lit_src(p['default'])))
    if c.get('extra') == 'default':
        sig.append('_yatiml_extra: Optional[OrderedDict] = None')
    L.append('    def __init__(%s) -> None:' % ', '.join(sig))
    kw = ', '.join('%r: %s' % (p['name'], p['name']) for p in params)
    if c.get('extra'):
        kw += (', ' if kw else '') + '"_yatiml_extra": _yatiml_extra'
    L.append('        _yv_log.append(("init", %r, type(self).__name__, {%s}))' % (name, kw))
    L += _raise_src(c.get('init_raises'))
    for p in params:
        L.append('        self.%s = %s' % (p['name'], p['name']))
    if c.get('extra'):
        L.append('        self._yatiml_extra = OrderedDict() if _yatiml_extra is None else _yatiml_extra')
    if c.get('hidden'):
        L.append('        self._hidden_state = 42')
    L.append('    def _yv_state(self):')
    L.append('        return [type(self).__name__, [(n, getattr(self, n, "<unset>")) for n in self._yv_params], '
             '(list(self._yatiml_extra.items()) if self._yv_extra else None)]')
    L.append('    def __repr__(self): return "<%s>" % (self._yv_state(),)')
    if c.get('defaults_override'):
        L.append('    _yatiml_defaults = {%s}' % ', '.join(
            '%r: %s' % (k, lit_src(v)) for k, v in c['defaults_override']))
    if c.get('attrs_hook') is not None:
        # _yatiml_attributes returns a chosen subset / order of attributes
        L.append('    def _yatiml_attributes(self):')
        L.append('        _yv_log.append(("attributes", %r, type(self).__name__, ""))' % name)
        L.append('        return OrderedDict([(n, getattr(self, n)) for n in %r])' % list(c['attrs_hook']))
    if c.get('recognize') is not None:
        L += _recognize_src(name, c['recognize'])
    if c.get('savorize') is not None:
        L += _savorize_src(name, c['savorize'])
    if c.get('sweeten') is not None:
        L += _sweeten_src(name, c['sweeten'])
    return L


class Model:
    def __init__(self, spec):
        self.spec = spec
        self.log = []
        ns = {
            '_yv_log': self.log, '_yv_digest': digest, 'yatiml': yatiml,
            'yaml': yaml, 'enum': enum, 'abc': abc, 'OrderedDict': OrderedDict,
            'UserString': UserString, 'date': datetime.date,
            'Path': pathlib.Path, 'bool_union_fix': yatiml.bool_union_fix,
            'Any': typing.Any, 'List': typing.List, 'Dict': typing.Dict,
            'Sequence': typing.Sequence, 'Mapping': typing.Mapping,
            'MutableSequence': typing.MutableSequence,
            'MutableMapping': typing.MutableMapping, 'Union': typing.Union,
            'Optional': typing.Optional,
        }
        specs = [dict(c) for c in spec['classes']]
        by = {c['name']: c for c in specs}
        # concrete descendants of 'method'-abstract classes need the override
        def has_abstract_anc(c):
            for b in c.get('bases', []):
                if by[b].get('abstract') == 'method' or has_abstract_anc(by[b]):
                    return True
            return False
        for c in specs:
            if c.get('kind', 'obj') == 'obj' and c.get('abstract') != 'method' \
                    and has_abstract_anc(c):
                c['_needs_concrete'] = True
        self.source = '\n'.join('\n'.join(class_src(c, by)) + '\n' for c in specs)
        # 'py_name': the class object's __name__ (two classes from different modules
        # may share one); set after all classes exist, the spec name stays unique
        self.source += ''.join('\n%s.__name__ = %r' % (c['name'], c['py_name'])
                               for c in specs if c.get('py_name'))
        exec(compile(self.source, '<yv-model>', 'exec'), ns)
        self.ns = ns
        self.by = by
        self.classes = OrderedDict((c['name'], ns[c['name']]) for c in specs)
        order = spec.get('order') or [c['name'] for c in specs]
        self.registered = [self.classes[n] for n in order
                           if by[n].get('reg', True)]
        self.doc_type = self.ty(spec['doc_type'])
        self._load = None
        self._dumps = None
        self._dumps_json = None

    def ty(self, t):
        return eval(type_src(t), self.ns)

    @property
    def load(self):
        if self._load is None:
            self._load = yatiml.load_function(self.doc_type, *self.registered)
        return self._load

    def load_as(self, t):
        return yatiml.load_function(self.ty(t), *self.registered)

    @property
    def dumps(self):
        if self._dumps is None:
            self._dumps = yatiml.dumps_function(*self.registered)
        return self._dumps

    @property
    def dumps_json(self):
        if self._dumps_json is None:
            self._dumps_json = yatiml.dumps_json_function(*self.registered)
        return self._dumps_json

    def reset(self):
        del self.log[:]

    # ---- value specs -> Python values -------------------------------------
    def realize(self, v):
        k = v[0]
        if k == 'str':
            return v[1]
        if k == 'int':
            return int(v[1])
        if k == 'float':
            return float(v[1])
        if k == 'bool':
            return bool(v[1])
        if k == 'none':
            return None
        if k == 'date':
            return datetime.date.fromisoformat(v[1])
        if k == 'datetime':
            return datetime.datetime.fromisoformat(v[1])
        if k == 'path':
            return pathlib.Path(v[1])
        if k == 'bytes':
            return bytes.fromhex(v[1])
        if k == 'list':
            return [self.realize(x) for x in v[1]]
        if k == 'dict':
            return {self.realize(a): self.realize(b) for a, b in v[1]}
        if k == 'odict':
            return OrderedDict((self.realize(a), self.realize(b)) for a, b in v[1])
        if k == 'enum':
            return self.classes[v[1]][v[2]]
        if k == 'strlike':
            return self.classes[v[1]](v[2])
        if k == 'obj':
            kw = {n: self.realize(x) for n, x in v[2]}
            if v[3] is not None:
                kw['_yatiml_extra'] = OrderedDict(
                    (a, self.realize(b)) for a, b in v[3])
            return self.classes[v[1]](**kw)
        if k == 'share':
            # ['share', idx] refers to the idx-th entry of self._shared
            return self._shared[v[1]]
        raise ValueError(v)


_CACHE = collections.OrderedDict()


def build(spec):
    """Build (and cache) the classes of a model spec."""
    import json
    key = hashlib.sha1(json.dumps(spec, sort_keys=True).encode()).hexdigest()
    m = _CACHE.get(key)
    if m is None:
        m = Model(spec)
        _CACHE[key] = m
        if len(_CACHE) > 64:
            _CACHE.popitem(last=False)
    else:
        _CACHE.move_to_end(key)
    m.reset()
    return m
