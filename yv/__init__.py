"""Property-based verification machinery for yatiml (see /verif/DESIGN.md)."""
