"""Canary: must never be imported or called by loading a document (C04)."""
import os

_flag = os.path.join(os.path.dirname(os.path.abspath(__file__)), '.scratch',
                     'canary_touched')
try:
    os.makedirs(os.path.dirname(_flag), exist_ok=True)
    with open(_flag, 'a') as f:
        f.write('imported\n')
except OSError:
    pass

CALLED = []


def boom(*a, **k):
    CALLED.append(('boom', a, k))
    return 'boom'


class Thing:
    def __init__(self, *a, **k):
        CALLED.append(('Thing', a, k))
