#!/venv/bin/python
import sys
sys.path.insert(0, '/tmp/probe/deps')
import atheris
with atheris.instrument_imports(include=['yatiml', 'yaml']):
    import yaml, yatiml
from typing import *
load = yatiml.load_function(Dict[str, Any])
seen = {}
def one(data):
    try:
        s = data.decode('utf-8')
    except UnicodeDecodeError:
        return
    try:
        load(s)
    except (yatiml.RecognitionError, yaml.YAMLError):
        pass
    except RecursionError:
        seen.setdefault('RecursionError', s)
    except Exception as e:
        k = type(e).__name__
        if k not in seen:
            seen[k] = s; print('NEW', k, repr(s)[:80], flush=True)
atheris.Setup(sys.argv, one)
atheris.Fuzz()
