import yatiml, yaml
from typing import *
def node_of(text):
    l = yatiml.loader.Loader(text)
    class L2(yatiml.loader.Loader): pass
    return yaml.compose(text, Loader=type('L', (yatiml.loader.Loader,), {'_registered_classes': {}, '_additional_classes': {}, 'get_single_node': yaml.SafeLoader.get_single_node}))
la = yatiml.load_function()
for s in ['0x1F', '017', '1_000', '0b11', '190:20:30', '.inf', '-.INF', '.nan', '1e5', '1.', '+1', '-0', '0o17', '12', 'true', 'FALSE', '~', 'null', '', 'abc', '"12"', '+.5']:
    try:
        n = node_of(s)
    except Exception as e:
        print(repr(s), 'compose EXC', e); continue
    if n is None: print(repr(s), 'no node'); continue
    try: gv = yatiml.Node(n).get_value()
    except Exception as e: gv = ('EXC', type(e).__name__, str(e))
    try: lv = la(s)
    except Exception as e: lv = ('EXC', type(e).__name__)
    print(repr(s), n.tag.split(':')[-1], 'get_value=', repr(gv), 'load=', repr(lv), '' if repr(gv)==repr(lv) else '   <<<<< DIFF')
print('--- defaults')
class D1:
    def __init__(self, x: Optional[int] = None, y: Union[int,str] = 'abc', z: Optional[float] = None, w: Union[bool, str] = 'q', s: Union[str,int] = 3, t: Optional[str] = None, l: Optional[List[int]] = None, f: float = 1.0, i: int = 1, b: bool = True) -> None:
        self.x=x; self.y=y; self.z=z; self.w=w; self.s=s; self.t=t; self.l=l; self.f=f; self.i=i; self.b=b
    @classmethod
    def _yatiml_sweeten(cls, node): node.remove_attributes_with_default_values(cls)
d = yatiml.dumps_function(D1)
for kw in [{}, {'x': 5}, {'y': 5}, {'z': 1.5}, {'w': True}, {'s': 'x'}, {'t': 'x'}, {'l': [1]}, {'f': 1}, {'i': 1.0}, {'i': True}, {'b': 1}, {'f': float('nan')}, {'s': '3'}, {'y': 'abc'}, {'t': 'null'}, {'i': 2}]:
    try: print(kw, repr(d(D1(**kw))))
    except Exception as e: print(kw, 'EXC', type(e).__name__, e)
