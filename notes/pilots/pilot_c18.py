import yatiml, yaml, enum, sys, json
from collections import OrderedDict
from typing import *
from hypothesis import given, settings, strategies as st, seed, HealthCheck
class Base_:
    def __eq__(s, o): return type(s) is type(o) and vars(s) == vars(o)
    def __repr__(s): return type(s).__name__ + repr(vars(s))
class A(Base_):
    def __init__(self, a: int, b: str = 'x') -> None: self.a=a; self.b=b
class Col(enum.Enum):
    true=1; red=2
class Sv(Base_):
    def __init__(self, items: Dict[str, A]) -> None: self.items = items
    @classmethod
    def _yatiml_savorize(cls, node): node.map_attribute_to_index('items', 'b')
    @classmethod
    def _yatiml_recognize(cls, node): node.require_attribute('items')
class Top(Base_):
    def __init__(self, x: Any = None, y: Optional[A] = None, d: Optional[Dict[str, int]] = None, l: Optional[List[A]] = None, c: Optional[Col] = None, t: Optional[bool] = None, s: Optional[Sv] = None, e: Optional[List[Any]] = None) -> None:
        self.__dict__.update({k: v for k, v in locals().items() if k != 'self'})
load = yatiml.load_function(Top, A, Col, Sv)
# doc trees: ('s', text) | ('q', [..]) | ('m', [(key, tree)])
scal = st.sampled_from(['1', '2', 'x', 'true', 'red', '~', '1.5'])
A_node = st.fixed_dictionaries({'a': st.sampled_from(['1','2'])}, optional={'b': st.sampled_from(['x','y'])}).map(lambda d: ('m', [(k, ('s', v)) for k, v in d.items()]))
any_node = st.recursive(scal.map(lambda x: ('s', x)), lambda ch: st.one_of(st.lists(ch, max_size=3).map(lambda l: ('q', l)), st.lists(st.tuples(st.sampled_from(['a','b','k']), ch), max_size=3, unique_by=lambda p: p[0]).map(lambda l: ('m', l))), max_leaves=5)
sv_node = st.lists(st.tuples(st.sampled_from(['p','q','r']), st.sampled_from(['1','2']).map(lambda v: ('m', [('a', ('s', v))]))), max_size=2, unique_by=lambda p: p[0]).map(lambda l: ('m', [('items', ('m', l))]))
top = st.fixed_dictionaries({}, optional={'x': st.one_of(any_node, A_node), 'y': A_node, 'd': st.one_of(A_node, any_node), 'l': st.lists(A_node, max_size=3).map(lambda l: ('q', l)), 'c': scal.map(lambda x: ('s', x)), 't': scal.map(lambda x: ('s', x)), 's': sv_node, 'e': st.lists(st.one_of(A_node, any_node, sv_node), max_size=3).map(lambda l: ('q', l))}).map(lambda d: ('m', list(d.items())))
def canon(t): return json.dumps(t)
def subtrees(t, path=()):
    yield path, t
    if t[0] == 'q':
        for i, c in enumerate(t[1]): yield from subtrees(c, path+(i,))
    elif t[0] == 'm':
        for i, (k, c) in enumerate(t[1]): yield from subtrees(c, path+(i,))
def render(t, share, path=(), state=None):
    # share: dict canon -> anchor name for subtrees to share; first occurrence defines
    if state is None: state = {}
    c = canon(t); pre = ''
    if c in share:
        if c in state: return '*' + share[c]
        state[c] = True; pre = '&' + share[c] + ' '
    if t[0] == 's': return pre + t[1]
    if t[0] == 'q': return pre + '[' + ', '.join(render(x, share, path+(i,), state) for i, x in enumerate(t[1])) + ']'
    return pre + '{' + ', '.join(k + ': ' + render(x, share, path+(i,), state) for i, (k, x) in enumerate(t[1])) + '}'
def outcome(text):
    try: return ('ok', load(text))
    except (yatiml.RecognitionError, yaml.YAMLError) as e: return ('err', str(e).splitlines()[-1][:80])
    except BaseException as e: return ('EXC', type(e).__name__)
stats = {'cases': 0, 'shared': 0, 'diff': 0}; buckets = {}
@seed(int(sys.argv[1]))
@settings(max_examples=int(sys.argv[2]), deadline=None, database=None, suppress_health_check=list(HealthCheck))
@given(top, st.data())
def test(t, data):
    groups = {}
    for p, s in subtrees(t):
        if p: groups.setdefault(canon(s), []).append(p)
    cands = [c for c, ps in groups.items() if len(ps) >= 2]
    if not cands: return
    chosen = data.draw(st.lists(st.sampled_from(cands), min_size=1, max_size=2, unique=True))
    # avoid nested sharing problems: drop candidates contained in another chosen one
    chosen = [c for c in chosen if not any(c != d and c in d for d in chosen)]
    share = {c: f'n{i}' for i, c in enumerate(chosen)}
    a = render(t, share); b = render(t, {})
    if '*' not in a: return
    stats['cases'] += 1
    oa, ob = outcome(a), outcome(b)
    same = (oa[0] == ob[0] == 'err') or (oa[0] == ob[0] == 'ok' and oa[1] == ob[1])
    if not same:
        stats['diff'] += 1
        key = (oa[0], ob[0], oa[1] if oa[0] != 'ok' else 'value', ob[1] if ob[0] != 'ok' else 'value')
        buckets.setdefault(key, (a, b, oa, ob))
test()
print(stats)
for k, v in buckets.items(): print(k, '\n    ', v[0], '\n    ', v[1])
