import yatiml, yaml, traceback, enum
from typing import *
from collections import OrderedDict, UserString
from datetime import date
from pathlib import Path
def show(r):
    if hasattr(r,'__dict__') and not isinstance(r, enum.Enum): return type(r).__name__+'('+', '.join(f'{k}={show(v)}' for k,v in vars(r).items())+')'
    if isinstance(r, list): return '['+', '.join(map(show,r))+']'
    if isinstance(r, dict): return '{'+', '.join(f'{show(k)}: {show(v)}' for k,v in r.items())+'}'
    return repr(r)
def t(load, s, tb=False):
    try:
        r = load(s)
        print(repr(s), '->', show(r))
    except Exception as e:
        print(repr(s), '-> EXC', type(e).__module__+'.'+type(e).__name__, str(e).splitlines()[-1][:120] if str(e) else '')
        if tb: traceback.print_exc()
class A:
    def __init__(self, a: int) -> None: self.a=a
class Top1:
    def __init__(self, x: Any, y: A) -> None: self.x=x; self.y=y
class Top2:
    def __init__(self, y: A, x: Any) -> None: self.x=x; self.y=y
class Top3:
    def __init__(self, y: Dict[str,int], x: A) -> None: self.x=x; self.y=y
print('--- alias type confusion')
t(yatiml.load_function(Top1, A), 'x: &n {a: 1}\ny: *n\n')
t(yatiml.load_function(Top1, A), 'x: {a: 1}\ny: {a: 1}\n')
t(yatiml.load_function(Top2, A), 'x: &n {a: 1}\ny: *n\n')
t(yatiml.load_function(Top2, A), 'y: &n {a: 1}\nx: *n\n')
t(yatiml.load_function(Top3, A), 'y: &n {a: 1}\nx: *n\n')
t(yatiml.load_function(List[A], A), '- &n {a: 1}\n- *n\n')
class Col(enum.Enum):
    true = 1
    red = 2
class Top4:
    def __init__(self, x: bool, y: Col) -> None: self.x=x; self.y=y
t(yatiml.load_function(Top4, Col), 'x: &n true\ny: *n\n')
t(yatiml.load_function(Top4, Col), 'x: true\ny: true\n')
print('--- savorize + alias')
class S:
    def __init__(self, a: int, b: int) -> None: self.a=a; self.b=b
    @classmethod
    def _yatiml_recognize(cls, node): node.require_mapping()
    @classmethod
    def _yatiml_savorize(cls, node):
        if node.has_attribute('c'):
            v = node.get_attribute('c').get_value()
            node.remove_attribute('c')
            node.set_attribute('a', v); node.set_attribute('b', v)
t(yatiml.load_function(List[S], S), '- &n {c: 1}\n- *n\n')
class PC:
    def __init__(self, digits: int, letters: str) -> None:
        self.digits = digits; self.letters = letters
    @classmethod
    def _yatiml_recognize(cls, node): node.require_scalar(str)
    @classmethod
    def _yatiml_savorize(cls, node):
        text = str(node.get_value()); node.make_mapping()
        node.set_attribute('digits', int(text[0:4])); node.set_attribute('letters', text[5:7])
t(yatiml.load_function(List[PC], PC), '- &n 1098 XG\n- *n\n')
t(yatiml.load_function(List[PC], PC), '- 1098 XG\n- 1098 XG\n')
class Tree:
    def __init__(self, kids: List['Tree']) -> None: self.kids = kids
Tree.__init__.__annotations__['kids'] = List[Tree]
t(yatiml.load_function(Tree), 'kids: [{kids: []}]')
t(yatiml.load_function(Tree), '&x {kids: [*x]}')
t(yatiml.load_function(), '&x [*x]')
t(yatiml.load_function(List[Any]), '&x [*x]')
t(yatiml.load_function(Dict[str, Any]), '&x {a: *x}')
