import yatiml, yaml, math, json, itertools, sys
from hypothesis import given, settings, strategies as st, seed, HealthCheck
dj = yatiml.dumps_json_function(); LOAD = yatiml.load_function()
def reject(x): raise ValueError('const '+x)
def strict(s): return json.loads(s, parse_constant=reject)
def eq(a, b):
    if type(a) != type(b): return False
    if isinstance(a, list): return len(a)==len(b) and all(eq(x,y) for x,y in zip(a,b))
    if isinstance(a, dict): return list(a.keys())==list(b.keys()) and all(eq(a[k],b[k]) for k in a)
    return a == b
# enumerate trees up to N nodes
from functools import lru_cache
LEAVES = ['a', 1, 1.5, True, None]
@lru_cache(None)
def trees(n):
    if n == 1: return [('leaf', i) for i in range(len(LEAVES))] + [('list', ()), ('dict', ())]
    out = []
    # containers with children totaling n-1 nodes
    def parts(total, maxparts):
        if total == 0: yield (); return
        for first in range(1, total+1):
            for rest in parts(total-first, maxparts-1):
                yield (first,)+rest
    for p in parts(n-1, n-1):
        for combo in itertools.product(*[trees(k) for k in p]):
            out.append(('list', combo)); out.append(('dict', combo))
    return out
def build(t):
    k, x = t
    if k == 'leaf': return LEAVES[x]
    if k == 'list': return [build(c) for c in x]
    return {f'k{i}': build(c) for i, c in enumerate(x)}
N = int(sys.argv[1]); cnt = 0; bad = {}
for n in range(1, N+1):
    for t in trees(n):
        v = build(t)
        for indent in [None, 0, 1, 2, 3, 8]:
            for ea in [True, False]:
                cnt += 1
                s = dj(v, indent=indent, ensure_ascii=ea)
                try: r = strict(s)
                except Exception as e: bad.setdefault(('invalid', indent), (v, s)); continue
                if not eq(r, v): bad.setdefault(('neq', indent), (v, s, r))
                if indent is None and (any(c.isspace() for c in s)): bad.setdefault('ws', (v, s))
                try:
                    r2 = LOAD(s)
                    if not eq(r2, v): bad.setdefault(('rt', indent), (v, s, r2))
                except Exception as e: bad.setdefault(('rtexc', type(e).__name__, indent), (v, s))
print(cnt, bad)
strs = st.text(max_size=8)
plain = st.recursive(st.one_of(strs, st.integers(-10**20,10**20), st.floats(allow_nan=False, allow_infinity=False), st.booleans(), st.none()), lambda ch: st.one_of(st.lists(ch, max_size=3), st.dictionaries(strs, ch, max_size=3)), max_leaves=8)
def allstr(v):
    if isinstance(v, str): yield v
    elif isinstance(v, list):
        for x in v: yield from allstr(x)
    elif isinstance(v, dict):
        for k, x in v.items(): yield k; yield from allstr(x)
@seed(2)
@settings(max_examples=3000, deadline=None, database=None, suppress_health_check=list(HealthCheck))
@given(plain, st.sampled_from([None,0,2,4]), st.booleans())
def test(v, indent, ea):
    s = dj(v, indent=indent, ensure_ascii=ea)
    try: r = strict(s)
    except Exception as e: bad.setdefault(('g-invalid', type(e).__name__), (v, s)); return
    if not eq(r, v): bad.setdefault('g-neq', (v, s, r))
    if ea and indent is None and not s.isascii(): bad.setdefault('g-ascii', (v, s))
    if all(c.isprintable() and ord(c) < 0x10000 for x in allstr(v) for c in x):
        try:
            r2 = LOAD(s)
            if not eq(r2, v): bad.setdefault('g-rt', (v, s, r2))
        except Exception as e: bad.setdefault(('g-rtexc', type(e).__name__), (v, s, str(e)[-100:]))
test()
for k, x in bad.items(): print(k, repr(x)[:300])
