"""Throw-away pilot: naive reference semantics vs yatiml on exhaustive small docs."""
import yatiml, yaml, enum, inspect, itertools, sys, abc
from collections import OrderedDict, UserString
from datetime import date
from pathlib import Path
from typing import *
import typing
from yatiml import bool_union_fix

class Reject(Exception): pass
Raw = type('L', (yatiml.loader.Loader,), {'_registered_classes': {}, '_additional_classes': {}, 'get_single_node': yaml.SafeLoader.get_single_node})
SC = yaml.constructor.SafeConstructor()
TAG = 'tag:yaml.org,2002:'
SCALAR_TAGS = {str: 'str', int: 'int', float: 'float', bool: 'bool', bool_union_fix: 'bool', type(None): 'null', None: 'null', date: 'timestamp'}
def origin(T): return getattr(T, '__origin__', None)
def is_seq(T): return origin(T) in (list, typing.Sequence.__origin__, typing.MutableSequence.__origin__)
def is_map(T): return origin(T) in (dict, typing.Mapping.__origin__, typing.MutableMapping.__origin__)
def is_union(T): return origin(T) is Union
def params(cls):
    sig = inspect.signature(cls.__init__); out = []
    for i, (n, p) in enumerate(sig.parameters.items()):
        if i == 0 or n == '_yatiml_extra': continue
        out.append((n, p.annotation if p.annotation is not inspect.Parameter.empty else Any, p.default is inspect.Parameter.empty, p.default))
    return out
def has_extra(cls): return '_yatiml_extra' in inspect.signature(cls.__init__).parameters
def is_abstract(c): return inspect.isabstract(c) or abc.ABC in c.__bases__
def stringlike(c): return inspect.isclass(c) and issubclass(c, (str, UserString, yatiml.String))

class Ref:
    def __init__(self, classes): self.reg = list(classes)
    def key_of(self, knode): return knode.value if isinstance(knode, yaml.ScalarNode) else None
    def attr(self, node, name):
        vs = [v for k, v in node.value if isinstance(k, yaml.ScalarNode) and k.value == name]
        return vs
    def core(self, tag): return tag.startswith('tag:yaml.org,2002')
    def struct_match(self, node, K):
        if issubclass(K, enum.Enum): return isinstance(node, yaml.ScalarNode) and node.tag in (TAG+'str', TAG+'bool')
        if stringlike(K): return isinstance(node, yaml.ScalarNode) and node.tag == TAG+'str'
        if not isinstance(node, yaml.MappingNode): return False
        for n, T, req, _ in params(K):
            vs = self.attr(node, n) or self.attr(node, n.replace('_', '-'))
            if vs:
                if not self.matches(vs[0], T): return False
            elif req: return False
        return True
    def descend(self, K):
        return [c for c in self.reg if K in c.__bases__]
    def class_matches(self, node, K):
        # most-derived registered concrete structurally matching & tag compatible
        def compat(C): return self.core(node.tag) or node.tag == '!' + C.__name__
        def rec(C):
            below = set()
            for d in self.descend(C): below |= rec(d)
            if below: return below
            if not is_abstract(C) and self.struct_match(node, C) and compat(C): return {C}
            return set()
        res = rec(K)
        return res
    def matches(self, node, T):
        if T in SCALAR_TAGS:
            return {T} if isinstance(node, yaml.ScalarNode) and node.tag == TAG + SCALAR_TAGS[T] else set()
        if T is Path: return {T} if isinstance(node, yaml.ScalarNode) and node.tag == TAG+'str' else set()
        if T is Any: return {Any}
        if is_union(T):
            out = set()
            for m in T.__args__: out |= self.matches(node, m)
            if bool in out and bool_union_fix in out: out.discard(bool_union_fix)
            return out
        if is_seq(T):
            if not isinstance(node, yaml.SequenceNode): return set()
            for it in node.value:
                m = self.matches(it, T.__args__[0])
                if not m: return set()
                if len(m) > 1: return {('amb', i) for i in range(2)}
            return {T}
        if is_map(T):
            if not isinstance(node, yaml.MappingNode): return set()
            for k, v in node.value:
                for nn, TT in ((k, T.__args__[0]), (v, T.__args__[1])):
                    m = self.matches(nn, TT)
                    if not m: return set()
                    if len(m) > 1: return {('amb', i) for i in range(2)}
            return {T}
        if T in self.reg: return self.class_matches(node, T)
        raise AssertionError(T)
    def load(self, node, T):
        m = self.matches(node, T)
        if len(m) != 1: raise Reject('recognition %d' % len(m))
        R = next(iter(m))
        if R in SCALAR_TAGS or R is Path:
            n2 = yaml.ScalarNode(node.tag, node.value)
            if R is Path: return Path(node.value)
            return SC.construct_object(n2)
        if R is Any: return self.plain(node)
        if is_seq(R):
            if node.tag != TAG+'seq': raise Reject('seq tag')
            return [self.load(i, R.__args__[0]) for i in node.value]
        if is_map(R):
            if node.tag != TAG+'map': raise Reject('map tag')
            out = {}
            for k, v in node.value:
                kk = self.load(k, R.__args__[0]); vv = self.load(v, R.__args__[1]); out[kk] = vv
            return out
        if issubclass(R, enum.Enum):
            try: return R[node.value]
            except KeyError: raise Reject('enum member')
        if stringlike(R):
            try: return R(node.value)
            except Exception: raise Reject('str ctor')
        # mapping class
        kw = OrderedDict(); extra = OrderedDict(); ps = {n: (T_, req) for n, T_, req, _ in params(R)}
        for k, v in node.value:
            if not (isinstance(k, yaml.ScalarNode) and k.tag == TAG+'str'): raise Reject('key')
            if k.value in ps: kw[k.value] = self.load(v, ps[k.value][0])
            elif has_extra(R): extra[k.value] = self.plain(v)
            else: raise Reject('unknown key')
        for n, (T_, req) in ps.items():
            if req and n not in kw: raise Reject('missing')
        if has_extra(R): kw['_yatiml_extra'] = extra
        try: return R(**kw)
        except Exception: raise Reject('ctor')
    def plain(self, node):
        if isinstance(node, yaml.ScalarNode):
            tag = node.tag if node.tag.startswith(TAG) else Raw('').resolve(yaml.ScalarNode, node.value, (True, False))
            return SC.construct_object(yaml.ScalarNode(tag, node.value))
        if isinstance(node, yaml.SequenceNode): return [self.plain(i) for i in node.value]
        out = {}
        for k, v in node.value: out[self.plain(k)] = self.plain(v)
        return out

class B_:
    def __eq__(s, o): return type(s) is type(o) and vars(s) == vars(o)
    def __repr__(s): return type(s).__name__ + repr(vars(s))
    def __hash__(s): return 0
def mk(name, bases, sig, abstract=False):
    src = f"def __init__(self{', ' if sig else ''}{sig}) -> None:\n    self.__dict__.update({{k: v for k, v in locals().items() if k != 'self'}})\n"
    ns = {}; exec(src, globals(), ns)
    return type(name, bases + ((B_,) if not any(issubclass(b, B_) for b in bases) else ()), {'__init__': ns['__init__']})
class Col(enum.Enum):
    red = 1; true = 2
class US(UserString): pass
V = mk('V', (), 'x: float, y: float = 0.0')
P = mk('P', (), 'a: int')
C1 = mk('C1', (P,), "a: int, b: str = 'q'")
C2 = mk('C2', (P,), 'a: int, c: int')
G = mk('G', (C1,), "a: int, b: str = 'q', d: Optional[int] = None")
E = mk('E', (), 'a: int, _yatiml_extra: OrderedDict')
D = mk('D', (), "some_key: int, col: Col = Col.red, u: Union[int, str, bool] = 0, l: Optional[List[int]] = None")
T1 = mk('T1', (), "p: P, m: Optional[Dict[str, P]] = None, n: Any = None, v: Union[V, int, None] = None, us: Optional[US] = None")
MODELS = {
  'V': (V, [V]), 'P': (P, [P, C1, C2, G]), 'E': (E, [E]), 'D': (D, [D, Col]), 'T1': (T1, [T1, P, C1, C2, G, V, US]),
  'U1': (Union[int, str, List[int], Dict[str, bool]], []), 'U2': (Union[P, E], [P, C1, E]), 'L': (List[Union[V, P]], [V, P, C1]), 'DM': (Dict[str, Optional[Col]], [Col]), 'DU': (Dict[US, int], [US]),
}
SCALS = ['1', 'x', 'true', '1.5', '~', 'red', '"1"']
KEYS = {'V': ['x', 'y', 'z'], 'P': ['a', 'b', 'c', 'd'], 'E': ['a', 'b'], 'D': ['some_key', 'some-key', 'col', 'u', 'l'], 'T1': ['p', 'm', 'n', 'v', 'us', 'a', 'x'], 'U1': ['k', 'j'], 'U2': ['a', 'b'], 'L': ['x', 'a', 'b'], 'DM': ['k', 'j'], 'DU': ['k', 'j']}
from functools import lru_cache
def trees(n, keys):
    @lru_cache(None)
    def go(n):
        out = []
        if n == 1: out += [('s', s) for s in SCALS] + [('q', ()), ('m', ())]
        else:
            def parts(total):
                if total == 0: yield (); return
                for f in range(1, total + 1):
                    for r in parts(total - f): yield (f,) + r
            for p in parts(n - 1):
                for combo in itertools.product(*[go(k) for k in p]):
                    out.append(('q', combo))
                    for ks in itertools.permutations(keys, len(combo)):
                        out.append(('m', tuple(zip(ks, combo))))
        return out
    return go(n)
def render(t):
    if t[0] == 's': return t[1]
    if t[0] == 'q': return '[' + ', '.join(render(x) for x in t[1]) + ']'
    return '{' + ', '.join(k + ': ' + render(x) for k, x in t[1]) + '}'
def eq(a, b):
    if type(a) is not type(b): return False
    if isinstance(a, list): return len(a) == len(b) and all(eq(x, y) for x, y in zip(a, b))
    if isinstance(a, dict): return list(a.keys()) == list(b.keys()) and all(eq(a[k], b[k]) for k in a)
    if isinstance(a, B_): return eq(vars(a), vars(b))
    return a == b
N = int(sys.argv[1]); only = sys.argv[2:] 
for name, (T, classes) in MODELS.items():
    if only and name not in only: continue
    load = yatiml.load_function(T, *classes); ref = Ref(classes)
    cnt = acc = 0; bad = {}
    for n in range(1, N + 1):
        for t in trees(n, tuple(KEYS[name])):
            text = render(t); cnt += 1
            node = yaml.compose(text, Loader=Raw)
            try: exp = ('ok', ref.load(node, T))
            except Reject as r: exp = ('rej', str(r))
            try: got = ('ok', load(text))
            except yatiml.RecognitionError as e: got = ('rej', str(e).splitlines()[-1][:60])
            except Exception as e: got = ('EXC', type(e).__name__ + ' ' + str(e)[:40])
            if exp[0] == 'ok': acc += 1
            if exp[0] != got[0] or (exp[0] == 'ok' and not eq(exp[1], got[1])):
                key = (exp[0], got[0], exp[1] if exp[0] == 'rej' else '', got[1] if got[0] != 'ok' else '')
                bad.setdefault(key, (text, exp, got))
    print(f'== {name}: {cnt} docs, ref accepts {acc}, disagreement buckets {len(bad)}')
    for k, v in list(bad.items())[:8]: print('   ', k, '|', v[0], '|', v[1], '|', v[2])
