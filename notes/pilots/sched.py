import sys, threading, yatiml, yaml, time
from typing import *
class Sched:
    def __init__(self, n, schedule):
        self.turn = None; self.cv = threading.Condition(); self.alive = set(range(n)); self.schedule = list(schedule); self.steps = 0; self.n=n
        self.switches = 0
    def tracer(self, tid):
        def local(frame, event, arg):
            if event == 'line': self.yield_point(tid)
            return local
        def glob(frame, event, arg):
            fn = frame.f_code.co_filename
            if '/yatiml/' in fn or '/yaml/' in fn: return local
            return None
        return glob
    def yield_point(self, tid):
        with self.cv:
            self.steps += 1
            # give up turn when quantum exhausted
            self.quantum -= 1
            if self.quantum <= 0:
                self.pick_next(tid)
            while self.turn != tid:
                self.cv.wait()
    def pick_next(self, cur):
        # choose next alive thread per schedule
        if not self.alive: return
        if self.schedule:
            t, q = self.schedule.pop(0)
        else:
            t, q = cur, 10**9
        alive = sorted(self.alive)
        t = alive[t % len(alive)]
        if t != cur: self.switches += 1
        self.turn = t; self.quantum = q
        self.cv.notify_all()
    def run(self, fns):
        res = [None]*len(fns)
        def body(i):
            with self.cv:
                while self.turn != i: self.cv.wait()
            sys.settrace(self.tracer(i))
            try:
                try: res[i] = ('ok', fns[i]())
                except Exception as e: res[i] = ('err', type(e).__name__)
            finally:
                sys.settrace(None)
                with self.cv:
                    self.alive.discard(i)
                    self.pick_next(i)
        ths = [threading.Thread(target=body, args=(i,)) for i in range(len(fns))]
        for t in ths: t.start()
        with self.cv:
            self.quantum = 0; self.pick_next(-1)
        for t in ths: t.join(30)
        assert not any(t.is_alive() for t in ths), 'deadlock'
        return res
class A:
    def __init__(self, a: int, b: Any = None) -> None: self.a=a; self.b=b
    def __repr__(self): return f'A({self.a},{self.b})'
load = yatiml.load_function(List[A], A)
docs = ['[{a: 1, b: !A {a: 2}}]', '[{a: 3}, {a: x}]', '[{a: 5, b: [1,2]}]']
import random
r = random.Random(1)
t0=time.time()
for trial in range(20):
    sch = [(r.randrange(3), r.randrange(1, 40)) for _ in range(400)]
    s = Sched(3, sch)
    res = s.run([lambda d=d: repr(load(d)) for d in docs])
print(res, s.steps, s.switches, time.time()-t0)
