import yatiml, yaml, math, enum, copy
from collections import OrderedDict, UserString
from datetime import date, datetime, timezone, timedelta
from pathlib import Path
from hypothesis import given, settings, strategies as st, seed, HealthCheck
from typing import *
hard = ['1e5','1.2.3','yes','true','null','~','','0x1f','1_000','2001-01-01','<<','=','a: b','- a','#x','&a','*a','!t','|','"',"'",' a','a ','a\nb','\x85',' ','﻿','\x00','\x7f','😀','é','-.5','.inf','1:30','on','0o7','?',':','-','---','...','[a]','{a}', 'a,b', '\t', 'a\tb', '\\', 'a: b\nc', 'x'*100, 'word '*30]
strs = st.one_of(st.sampled_from(hard), st.text(max_size=12))
floats = st.floats(allow_nan=True, allow_infinity=True)
scal = st.one_of(strs, st.integers(-10**20, 10**20), floats, st.booleans(), st.none(), st.dates(), st.datetimes(), st.datetimes(timezones=st.sampled_from([timezone.utc, timezone(timedelta(hours=5, minutes=30)), timezone(timedelta(hours=-3))])))
plain = st.recursive(scal, lambda ch: st.one_of(st.lists(ch, max_size=4), st.dictionaries(strs, ch, max_size=4)), max_leaves=12)
def eq(a, b):
    if type(a) != type(b):
        return False
    if isinstance(a, float): return (math.isnan(a) and math.isnan(b)) or (a == b and math.copysign(1,a)==math.copysign(1,b))
    if isinstance(a, list): return len(a)==len(b) and all(eq(x,y) for x,y in zip(a,b))
    if isinstance(a, dict): return list(a.keys())==list(b.keys()) and all(eq(a[k],b[k]) for k in a)
    return a == b
dumps = yatiml.dumps_function()
bad = {}
@seed(1)
@settings(max_examples=3000, deadline=None, database=None, suppress_health_check=list(HealthCheck))
@given(plain)
def test(v):
    before = copy.deepcopy(v)
    t = dumps(v)
    assert dumps(v) == t
    docs = list(yaml.compose_all(t))
    assert len(docs) == 1
    for ev in yaml.parse(t):
        if hasattr(ev, 'tag') and ev.tag is not None:
            bad.setdefault('tag', (v, t)); 
    r = yaml.safe_load(t)
    if not eq(r, v): bad.setdefault('neq', (v, t, r))
    assert eq(before, v)
test()
print(bad)
