import yatiml, yaml, copy
from typing import *
Base = type('L', (yatiml.loader.Loader,), {'_registered_classes': {}, '_additional_classes': {}, 'get_single_node': yaml.SafeLoader.get_single_node})
def node_of(text): return yaml.compose(text, Loader=Base)
def plain(n):
    if isinstance(n, yaml.ScalarNode): return (n.tag.split(':')[-1], n.value)
    if isinstance(n, yaml.SequenceNode): return [plain(x) for x in n.value]
    return {'__map__': [(plain(k), plain(v)) for k,v in n.value]}
def simple(n):
    if isinstance(n, yaml.ScalarNode): return n.value
    if isinstance(n, yaml.SequenceNode): return [simple(x) for x in n.value]
    return [(simple(k), simple(v)) for k,v in n.value]
def run(text, fn, *a, **kw):
    n = yatiml.Node(node_of(text))
    before = simple(n.yaml_node)
    try:
        getattr(n, fn)(*a, **kw)
        print(fn, a, kw, '\n   ', before, '\n -> ', simple(n.yaml_node))
    except Exception as e:
        print(fn, a, kw, '\n   ', before, '\n -> EXC', type(e).__name__, e)
    return n
run('items: [{id: a, v: 1}, {id: b, v: 2, w: 3}]', 'seq_attribute_to_map', 'items', 'id')
run('items: [{id: a, v: 1}, {id: b, v: 2, w: 3}]', 'seq_attribute_to_map', 'items', 'id', 'v')
run('items: [{id: a, v: 1}, {id: b, w: 3}]', 'seq_attribute_to_map', 'items', 'id', 'v')
run('items: [{id: a, v: 1}, {v: 3}]', 'seq_attribute_to_map', 'items', 'id', 'v')
run('items: [{id: a, v: 1}, 3]', 'seq_attribute_to_map', 'items', 'id', 'v')
run('items: [{id: a, v: 1}, [3]]', 'seq_attribute_to_map', 'items', 'id', 'v')
run('items: [{id: 1, v: 1}]', 'seq_attribute_to_map', 'items', 'id', 'v')
run('items: [{id: a}, {id: a}]', 'seq_attribute_to_map', 'items', 'id', strict=False)
run('items: [{id: a}, {id: a}]', 'seq_attribute_to_map', 'items', 'id')
run('items: [{id: a}]', 'seq_attribute_to_map', 'items', 'id', 'v')
run('items: [{id: a, w: 1}]', 'seq_attribute_to_map', 'items', 'id', 'v')
run('items: []', 'seq_attribute_to_map', 'items', 'id', 'v')
run('items: {a: {v: 1}, b: {v: 2, w: 3}}', 'map_attribute_to_seq', 'items', 'id')
run('items: {a: 1, b: {v: 2, w: 3}}', 'map_attribute_to_seq', 'items', 'id', 'v')
run('items: {a: 1, b: {v: 2, w: 3}}', 'map_attribute_to_seq', 'items', 'id')
run('items: {a: [1], b: {v: {x: 1}}}', 'map_attribute_to_seq', 'items', 'id', 'v')
run('items: {a: {id: z, v: 1}}', 'map_attribute_to_seq', 'items', 'id', 'v')
run('items: {1: {v: 1}}', 'map_attribute_to_seq', 'items', 'id', 'v')
run('items: {a: {v: 1, id: a}, b: {id: b, v: 2, w: 3}}', 'index_attribute_to_map', 'items', 'id')
run('items: {a: {v: 1, id: a}, b: {id: b, v: 2, w: 3}}', 'index_attribute_to_map', 'items', 'id', 'v')
run('items: {a: 1, b: {id: b, v: 2, w: 3}}', 'index_attribute_to_map', 'items', 'id', 'v')
run('items: {a: {id: a, v: {x: 1}}}', 'index_attribute_to_map', 'items', 'id', 'v')
run('items: {a: {v: 1}, b: {v: 2, w: 3}}', 'map_attribute_to_index', 'items', 'id')
run('items: {a: 1, b: {v: 2, w: 3}}', 'map_attribute_to_index', 'items', 'id', 'v')
run('items: {a: 1, b: {v: 2, w: 3}}', 'map_attribute_to_index', 'items', 'id')
run('items: {a: {x: 1}}', 'map_attribute_to_index', 'items', 'id', 'v')
run('items: {a: [1]}', 'map_attribute_to_index', 'items', 'id', 'v')
run('items: {a: {id: q}}', 'map_attribute_to_index', 'items', 'id', 'v')
run('items: 3', 'map_attribute_to_index', 'items', 'id', 'v')
run('items: [1]', 'map_attribute_to_index', 'items', 'id', 'v')
run('items: [1]', 'index_attribute_to_map', 'items', 'id', 'v')
run('items: [1]', 'map_attribute_to_seq', 'items', 'id', 'v')
run('items: {a: 1}', 'seq_attribute_to_map', 'items', 'id', 'v')
run('a_b: 1\nc-d: 2\ne_f-g: 3', 'unders_to_dashes_in_keys')
run('a_b: 1\nc-d: 2\ne_f-g: 3', 'dashes_to_unders_in_keys')
run('a_b: 1\n1: 2\n[x_y]: 3', 'unders_to_dashes_in_keys')
print('=== extra')
run('items: {b: {v: 2}, a: 1}', 'map_attribute_to_seq', 'items', 'id')
run('items: {b: {v: 2, id: b}, a: 1}', 'index_attribute_to_map', 'items', 'id')
run('items: [{id: a, v: 1}, {id: b, w: 3}]', 'seq_attribute_to_map', 'items', 'id', 'v')
