import yatiml, yaml, sys, json
from hypothesis import given, settings, strategies as st, seed, HealthCheck
Raw = type('L', (yatiml.loader.Loader,), {'_registered_classes': {}, '_additional_classes': {}, 'get_single_node': yaml.SafeLoader.get_single_node})
def compose(text): return yaml.compose(text, Loader=Raw)
def plain(n):
    if isinstance(n, yaml.ScalarNode): return ('s', n.tag.split(':')[-1], n.value)
    if isinstance(n, yaml.SequenceNode): return ('q', [plain(x) for x in n.value])
    return ('m', [(plain(k), plain(v)) for k, v in n.value])
def norm_items(p, key):
    # move key attr to end of each item in seq under 'items'
    return p
names = ['id', 'v', 'w', 'z']
scal = st.sampled_from(['1', 'x', 'true', '~', '1.5'])
val = st.one_of(scal, st.lists(scal, max_size=2).map(lambda l: '[' + ', '.join(l) + ']'))
keyvals = st.sampled_from(['a', 'b', 'c', 'd'])
@st.composite
def seq_of_maps(draw):
    n = draw(st.integers(0, 3)); keys = draw(st.lists(keyvals, min_size=n, max_size=n, unique=True))
    items = []
    for k in keys:
        others = draw(st.lists(st.sampled_from(['v', 'w', 'z']), max_size=3, unique=True))
        pairs = [('id', k)] + [(o, draw(val)) for o in others]
        pairs = draw(st.permutations(pairs))
        items.append('{' + ', '.join(f'{a}: {b}' for a, b in pairs) + '}')
    return 'items: [' + ', '.join(items) + ']'
bad = {}
def key_last(item):  # item = ('m', pairs)
    pairs = item[1]; k = [p for p in pairs if p[0][2] == 'id']; o = [p for p in pairs if p[0][2] != 'id']
    return ('m', o + k)
cnt = [0, 0]
@seed(1)
@settings(max_examples=3000, deadline=None, database=None, suppress_health_check=list(HealthCheck))
@given(seq_of_maps(), st.sampled_from([None, 'v']))
def test(text, va):
    n = yatiml.Node(compose(text)); before = plain(n.yaml_node)
    cnt[0] += 1
    try:
        n.seq_attribute_to_map('items', 'id', va)
    except Exception as e:
        bad.setdefault(('fwd', type(e).__name__, str(e)[:40]), text); return
    mid = plain(n.yaml_node)
    try:
        n.map_attribute_to_seq('items', 'id', va)
    except Exception as e:
        bad.setdefault(('back', type(e).__name__, str(e)[:40]), (text, mid)); return
    after = plain(n.yaml_node)
    exp = ('m', [(before[1][0][0], ('q', [key_last(i) for i in before[1][0][1][1]]))])
    if before[1][0][1][1] == []:
        # empty seq -> empty map -> (map_attribute_to_seq on empty mapping) -> empty seq
        pass
    if after != exp: bad.setdefault(('neq', va), (text, mid, after, exp))
    else: cnt[1] += 1
test()
print(cnt)
for k, v in bad.items(): print(k, v)
