import yatiml, yaml, enum, traceback, sys
from collections import OrderedDict, UserString
from datetime import date
from pathlib import Path
from typing import *
from hypothesis import given, settings, strategies as st, seed, HealthCheck
class A:
    def __init__(self, a: int, b: str = 'x') -> None: self.a=a; self.b=b
class E:
    def __init__(self, a: int, _yatiml_extra: OrderedDict) -> None: self.a=a; self._yatiml_extra=_yatiml_extra
class Col(enum.Enum):
    red=1; true=2
class US(UserString):
    def __init__(self, s):
        super().__init__(s)
        if 'x' in s: raise KeyError('boom')
class P:
    def __init__(self, a: int) -> None: pass
class C1(P):
    def __init__(self, a: int, c: Union[int, str, List[int]] = 0) -> None: pass
class Perm:
    def __init__(self, a: int) -> None: pass
    @classmethod
    def _yatiml_recognize(cls, node): pass
class Top:
    def __init__(self, x: Any, y: A, z: Optional[Dict[str, P]] = None, col: Col = Col.red, d: Optional[date] = None, p: Optional[Path] = None, f: float = 1.0, u: Optional[US] = None) -> None: pass
loads = {
 'any': yatiml.load_function(), 'dictany': yatiml.load_function(Dict[str, Any]), 'A': yatiml.load_function(A), 'E': yatiml.load_function(E),
 'listA': yatiml.load_function(List[A], A), 'col': yatiml.load_function(Col), 'us': yatiml.load_function(Dict[US, int], US), 'P': yatiml.load_function(P, C1),
 'perm': yatiml.load_function(Perm), 'top': yatiml.load_function(Top, A, P, C1, Col, US), 'u': yatiml.load_function(Union[int, str, A, List[A]], A), 'float': yatiml.load_function(float), 'date': yatiml.load_function(date),
}
toks = ['a', 'b', 'c', 'x', 'y', 'z', 'col', 'red', 'true', 'd', 'p', 'f', 'u', ': ', ':', '- ', '-', '\n', '\n  ', '\n    ', ' ', '[', ']', '{', '}', ',', '? ', '&n ', '*n', '!A ', '!P ', '!C1 ', '!X ', '!!int ', '!!str ', '!!float ', '!!bool ', '!!null ', '!!timestamp ', '!!binary ', '!!set ', '!!omap ', '!!python/object:os.system ', '<<', '1', '0x_', '1.5', '1e5', '.inf', '2001-01-01', '2001-13-01', '~', 'null', '"', "'", '|', '>', '#', '%', '---', '...', '1:2', '0b_', '=', 'yes', '.', 'e', '+', '_']
soup = st.lists(st.sampled_from(toks), max_size=14).map(''.join)
buckets = {}
def inner(tb):
    fr = [f for f in traceback.extract_tb(tb) if '/yatiml/' in f.filename or '/yaml/' in f.filename]
    f = fr[-1] if fr else traceback.extract_tb(tb)[-1]
    return f'{f.filename.split("/")[-2]}/{f.filename.split("/")[-1]}:{f.name}'
def depth_ok(text):
    try: n = yaml.compose(text)
    except RecursionError: return False
    except Exception: return True
    seen = set()
    def d(n, lvl, stack):
        if id(n) in stack: raise RecursionError
        if lvl > 20: raise OverflowError
        if isinstance(n, yaml.SequenceNode):
            for c in n.value: d(c, lvl+1, stack|{id(n)})
        elif isinstance(n, yaml.MappingNode):
            for k, v in n.value: d(k, lvl+1, stack|{id(n)}); d(v, lvl+1, stack|{id(n)})
    try: d(n, 0, frozenset())
    except RecursionError: return 'cycle'
    except OverflowError: return False
    return True
cnt = [0, 0]
@seed(int(sys.argv[1]))
@settings(max_examples=int(sys.argv[2]), deadline=None, database=None, suppress_health_check=list(HealthCheck))
@given(st.one_of(soup, st.text(max_size=20)))
def test(text):
    ok = depth_ok(text)
    if ok is False: return
    for name, load in loads.items():
        cnt[0] += 1
        try:
            load(text)
        except (yatiml.RecognitionError, yaml.YAMLError): cnt[1] += 1
        except BaseException as e:
            key = (type(e).__name__, inner(e.__traceback__))
            if key not in buckets: buckets[key] = (name, text)
test()
print(cnt)
for k, v in sorted(buckets.items()): print(k, v)
