import yatiml, yaml, traceback, enum, math, json, io, abc
from typing import *
from collections import OrderedDict, UserString
def show(r):
    if hasattr(r,'__dict__') and not isinstance(r, enum.Enum): return type(r).__name__+'('+', '.join(f'{k}={show(v)}' for k,v in vars(r).items())+')'
    if isinstance(r, list): return '['+', '.join(map(show,r))+']'
    if isinstance(r, dict): return '{'+', '.join(f'{show(k)}: {show(v)}' for k,v in r.items())+'}'
    return repr(r)
def t(load, s, tb=False):
    try:
        r = load(s)
        print(repr(s), '->', show(r))
    except Exception as e:
        print(repr(s), '-> EXC', type(e).__module__+'.'+type(e).__name__, str(e).splitlines()[-1][:140] if str(e) else '')
        if tb: traceback.print_exc()
class P:
    def __init__(self, a: int) -> None: self.a=a
class C1(P):
    def __init__(self, a: int, b: int = 0) -> None: self.a=a; self.b=b
class C2(P):
    def __init__(self, a: int, c: int) -> None: self.a=a; self.c=c
class G(C1):
    def __init__(self, a: int, b: int = 0, d: int = 1) -> None: self.a=a; self.b=b; self.d=d
print('--- hierarchy')
L = yatiml.load_function(P, C1, C2, G)
t(L, 'a: 1'); t(L, 'a: 1\nb: 2'); t(L, 'a: 1\nc: 2'); t(L, 'a: 1\nb: 1\nd: 3'); t(L, '!P\na: 1'); t(L, '!C1\na: 1'); t(L, '!C2\na: 1'); t(L, '!C2\na: 1\nc: 1'); t(L, '!P\na: 1\nc: 1'); t(L, '!G\na: 1'); t(L, '!G {a: 1, c: 1}'); t(L, 'a: 1\nb: 1\nc: 1')
print('--- unregistered intermediate')
L = yatiml.load_function(P, G)
t(L, 'a: 1'); t(L, 'a: 1\nd: 2'); t(L, '!G {a: 1}'); t(L, '!C1 {a: 1}')
L = yatiml.load_function(P, C2, G)
t(L, 'a: 1\nd: 2')
print('--- registration order')
for order in [(P,C1,C2,G),(G,C2,C1,P),(C1,P,G,C2)]:
    L = yatiml.load_function(Union[P, int], *order); t(L, 'a: 1\nb: 2'); t(L, 'a: 1')
print('--- Union order and tags')
class X:
    def __init__(self, a: int) -> None: self.a=a
class Y:
    def __init__(self, a: int, b: int = 0) -> None: self.a=a; self.b=b
for U in [Union[X,Y], Union[Y,X]]:
    L = yatiml.load_function(U, X, Y)
    t(L, 'a: 1'); t(L, '!X {a: 1}'); t(L, '!Y {a: 1}'); t(L, 'a: 1\nb: 1'); t(L, '!X {a: 1, b: 1}'); t(L, '!Z {a: 1}'); t(L, '!!map {a: 1, b: 1}')
print('--- tag on union of class & builtin')
L = yatiml.load_function(Union[X, Dict[str,int]], X)
t(L, 'a: 1'); t(L, '!X {a: 1}'); t(L, 'b: 1'); t(L, '!X {b: 1}')
L = yatiml.load_function(Union[X, str], X)
t(L, '!X abc'); t(L, 'abc'); t(L, '!X {a: 1}'); t(L, '!Y {a: 1}')
print('--- Optional')
L = yatiml.load_function(Optional[X], X)
t(L, 'null'); t(L, '~'); t(L, 'a: 1'); t(L, '!X'); t(L, '!X ~'); t(L, '!!null {a: 1}'); t(L, '!!null x')
print('--- abstract')
class Ab(abc.ABC):
    def __init__(self, a: int) -> None: self.a=a
class Ab2(Ab):
    @abc.abstractmethod
    def f(self): ...
class Co(Ab2):
    def __init__(self, a: int) -> None: self.a=a
    def f(self): pass
L = yatiml.load_function(Ab, Ab2, Co); t(L, 'a: 1'); t(L, '!Ab {a: 1}'); t(L, '!Ab2 {a: 1}')
L = yatiml.load_function(Ab, Ab2); t(L, 'a: 1')
L = yatiml.load_function(Ab2); t(L, 'a: 1')
class M(abc.ABC):
    @abc.abstractmethod
    def f(self): ...
    def __init__(self, a: int) -> None: self.a=a
class MC(M):
    def f(self): pass
L = yatiml.load_function(M, MC); t(L, 'a: 1')
print('--- multiple inheritance')
class S4:
    def __init__(self, attr: int) -> None: self.attr=attr
class S5:
    def __init__(self, attr: int) -> None: self.attr=attr
class S45(S4,S5):
    def __init__(self, attr: int) -> None: self.attr=attr
L = yatiml.load_function(S4, S5, S45); t(L, 'attr: 1')
L = yatiml.load_function(Union[S4,S5], S4, S5, S45); t(L, 'attr: 1'); t(L, '!S4 {attr: 1}')
L = yatiml.load_function(List[Union[S4,S5]], S4, S5); t(L, '[{attr: 1}]'); t(L, '[!S4 {attr: 1}]')
L = yatiml.load_function(Dict[str, Union[S4,S5]], S4, S5); t(L, '{a: {attr: 1}}'); t(L, '{a: !S4 {attr: 1}}')
