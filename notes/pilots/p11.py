import yatiml, yaml, enum
from typing import *
from collections import OrderedDict, UserString
def t(load, s):
    try:
        r = load(s); print(repr(s), '->', type(r).__name__, repr(r) if not hasattr(r,'__dict__') else vars(r))
    except Exception as e:
        print(repr(s), '-> EXC', type(e).__module__+'.'+type(e).__name__, str(e).splitlines()[-1][:120] if str(e) else '')
print(Optional[Any], Union[Any, int])
class OA:
    def __init__(self, x: Optional[Any] = None) -> None: self.x = x
t(yatiml.load_function(OA), 'x: 1')
t(yatiml.load_function(OA), '{}')
t(yatiml.load_function(Optional[Any]), '1')
t(yatiml.load_function(List[Optional[Any]]), '[1]')
print('--- string-like raising')
class US(UserString):
    def __init__(self, s):
        super().__init__(s)
        if 'x' in s: raise KeyError('boom')
t(yatiml.load_function(US), 'axb')
t(yatiml.load_function(Dict[US,int], US), 'axb: 1')
class S2(str): pass
t(yatiml.load_function(S2), 'abc')
t(yatiml.load_function(Dict[S2,int], S2), 'abc: 1')
print('--- ctor raising')
class R:
    def __init__(self, a: int) -> None:
        if a > 3: raise KeyError(a)
        self.a = a
t(yatiml.load_function(R), 'a: 5')
t(yatiml.load_function(List[R], R), '[{a: 1}, {a: 5}]')
print('--- savorize raising SeasoningError / misc')
class SV:
    def __init__(self, a: int) -> None: self.a = a
    @classmethod
    def _yatiml_savorize(cls, node):
        if node.has_attribute('b'): raise yatiml.SeasoningError('no b please')
        node.get_attribute('zzz') if node.has_attribute('c') else None
    @classmethod
    def _yatiml_recognize(cls, node): node.require_mapping()
t(yatiml.load_function(SV), 'a: 1\nb: 2')
t(yatiml.load_function(SV), 'a: 1\nc: 2')
t(yatiml.load_function(List[SV], SV), '[{a: 1, b: 2}]')
print('--- savorize producing wrong node kinds')
class W1:
    def __init__(self, a: int) -> None: self.a = a
    @classmethod
    def _yatiml_recognize(cls, node): pass
    @classmethod
    def _yatiml_savorize(cls, node):
        if node.is_scalar(): return
        if node.is_sequence(): node.set_value('zz')
t(yatiml.load_function(W1), '3')
t(yatiml.load_function(W1), '[1]')
t(yatiml.load_function(W1), 'a: 1')
t(yatiml.load_function(W1), 'a: x')
t(yatiml.load_function(List[W1], W1), '[3]')
class W2(enum.Enum):
    a = 1
    @classmethod
    def _yatiml_savorize(cls, node): node.make_mapping()
t(yatiml.load_function(W2), 'a')
class W3(UserString):
    @classmethod
    def _yatiml_savorize(cls, node): node.make_mapping()
t(yatiml.load_function(W3), 'a')
class W4(UserString):
    @classmethod
    def _yatiml_savorize(cls, node): node.yaml_node = yaml.SequenceNode('tag:yaml.org,2002:seq', [], node.yaml_node.start_mark, node.yaml_node.end_mark)
t(yatiml.load_function(W4), 'a')
t(yatiml.load_function(Dict[W4, int], W4), 'a: 1')
class W5:
    def __init__(self, a: List[int]) -> None: self.a = a
    @classmethod
    def _yatiml_recognize(cls, node): pass
    @classmethod
    def _yatiml_savorize(cls, node):
        node.set_attribute('a', yaml.MappingNode('tag:yaml.org,2002:map', [], None, None)) if node.is_mapping() else None
t(yatiml.load_function(W5), 'a: [1]')
t(yatiml.load_function(W5), '[1]')
t(yatiml.load_function(W5), 'x')
