#!/venv/bin/python
"""atheris (libFuzzer) target: coverage-guided byte fuzzing of load(text) over
the portfolio models with the semantic oracles inside the target.

  fuzz_load.py [libFuzzer flags] [corpus dirs]      (run through ./check C08 --tier thorough)

First input byte selects a model, the rest is the document (UTF-8). Oracles:
C08 exception type, C01 conformance of the returned value and of constructor
arguments, C04 canary module / trap class / plain data below Any, C18 aliased
vs alias-expanded document. A violation raises, so libFuzzer stores the input
as an artifact; the runner replays artifacts through the property's own check.
"""
import os
import sys

HERE = os.path.dirname(os.path.abspath(__file__))
ROOT = os.path.dirname(HERE)
sys.path[:0] = [os.path.join(ROOT, '.deps'), ROOT]

import atheris  # noqa: E402

with atheris.instrument_imports(include=['yatiml', 'yaml']):
    import yaml
    import yatiml

from yv import models, portfolio, tree as T  # noqa: E402
from yv.common import strict_eq  # noqa: E402
from yv.conform import Conf, admissible_classes  # noqa: E402

NAMES = sorted(portfolio.FUZZ_MODELS)
MODELS = [models.Model(portfolio.FUZZ_MODELS[n]) for n in NAMES]
LOADS = [m.load for m in MODELS]
ADM = [admissible_classes(m.spec) for m in MODELS]
ORACLE = os.environ.get('FUZZ_ORACLE', 'all')
STATS = {'execs': 0, 'skipped_depth': 0, 'loaded': 0, 'rejected': 0, 'aliased': 0}


class Violation(Exception):
    pass


def outcome(load, text):
    try:
        return ('ok', load(text))
    except (yatiml.RecognitionError, yaml.YAMLError):
        return ('rej', None)


def one(data):
    if len(data) < 2:
        return
    i = data[0] % len(MODELS)
    try:
        text = data[1:].decode('utf-8')
    except UnicodeDecodeError:
        return
    STATS['execs'] += 1
    # domain guard: bounded nesting (measured with plain PyYAML)
    try:
        node = T.compose_raw(text)
    except yaml.YAMLError:
        node = None
    except RecursionError:
        STATS['skipped_depth'] += 1
        return
    shared = cyc = False
    if node is not None:
        try:
            _, depth, shared, cyc = T.node_stats(node)
        except RecursionError:
            STATS['skipped_depth'] += 1
            return
        if depth > 20:
            STATS['skipped_depth'] += 1
            return
    m, load = MODELS[i], LOADS[i]
    m.reset()
    sys.modules.pop('yv_canary', None)
    v = None
    try:
        v = load(text)
        ok = True
    except (yatiml.RecognitionError, yaml.YAMLError):
        ok = False
    except RecursionError as e:
        if ORACLE in ('all', 'C08'):
            raise Violation('C08 RecursionError model=%s' % NAMES[i])
        return
    except Exception as e:
        if ORACLE in ('all', 'C08'):
            raise Violation('C08 %s model=%s: %s' % (type(e).__name__, NAMES[i], e))
        return
    if ORACLE == 'C08':
        return
    if ORACLE in ('all', 'C04'):
        c04(i, m, v, ok)
    if ORACLE in ('all', 'C01') and ok:
        why = []
        conf = Conf(m)
        if not conf.conforms(v, m.spec['doc_type'], why) or not conf.check_init_log(why):
            raise Violation('C01 nonconforming value model=%s: %s' % (NAMES[i], why[:1]))
    if ORACLE in ('all', 'C18'):
        c18(i, m, load, node, v, ok, shared, cyc)


def c04(i, m, v, ok):
    if 'yv_canary' in sys.modules:
        raise Violation('C04 canary module imported model=%s' % NAMES[i])
    for e in m.log:
        if e[0] == 'init' and (e[2] == 'Trap' or e[2] not in ADM[i]):
            raise Violation('C04 inadmissible class %s constructed model=%s' % (e[2], NAMES[i]))
    conf = Conf(m)
    why = []
    if not conf.check_init_log(why):
        raise Violation('C04/C01 constructor argument: %s model=%s' % (why[:1], NAMES[i]))
    if ok:
        why = []
        if not conf.conforms(v, m.spec['doc_type'], why):
            raise Violation('C04 non-plain value model=%s: %s' % (NAMES[i], why[:1]))


def c18(i, m, load, node, v, ok, shared, cyc):
    if cyc and ok:
        raise Violation('C18 cyclic document loaded model=%s' % NAMES[i])
    if shared and not cyc and node is not None:
        STATS['aliased'] += 1
        try:
            expanded = yaml.serialize(T.copy_nodes(node, share=False), Dumper=T._style_dumper(),
                                      allow_unicode=True)
            if T.plain(T.compose_raw(expanded)) != T.plain(node):
                return
        except Exception:
            return
        m.reset()
        try:
            o2 = outcome(load, expanded)
        except Exception:
            return
        if o2[0] != ('ok' if ok else 'rej') or (ok and not strict_eq(v, o2[1])):
            raise Violation('C18 aliased vs expanded differ model=%s' % NAMES[i])


def main():
    atheris.Setup(sys.argv, one)
    atheris.Fuzz()


if __name__ == '__main__':
    if len(sys.argv) > 1 and sys.argv[1] == '--list-models':
        print('\n'.join(NAMES))
    else:
        main()
