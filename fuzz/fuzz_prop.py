#!/venv/bin/python
"""atheris driving a property's *structured* Hypothesis strategy:

    fuzz_prop.py <PROP> <outdir> [libFuzzer flags] [corpus dir]

libFuzzer's bytes are fed to `test.hypothesis.fuzz_one_input`, so coverage of
yatiml/ and yaml/ guides the generation of (model, document/value) cases. The
property's own check() is the oracle; the first violating case is written to
<outdir>/case_<n>.json (JSON-able case + finding) and the process stops, so the
runner can replay it through the ordinary machinery.
"""
import json
import os
import sys

HERE = os.path.dirname(os.path.abspath(__file__))
ROOT = os.path.dirname(HERE)
sys.path[:0] = [os.path.join(ROOT, '.deps'), ROOT]

import atheris  # noqa: E402

with atheris.instrument_imports(include=['yatiml', 'yaml']):
    import yaml      # noqa: F401
    import yatiml    # noqa: F401

import importlib  # noqa: E402

from hypothesis import HealthCheck, given, settings  # noqa: E402

from yv.common import Ctx, Violation  # noqa: E402

prop_id = sys.argv[1]
outdir = sys.argv[2]
argv = [sys.argv[0]] + sys.argv[3:]
prop = importlib.import_module('yv.props.' + prop_id.lower())
os.makedirs(outdir, exist_ok=True)
ctx = Ctx(prop_id, {})
strategy = None
for ph in prop.phases('quick'):
    if ph.kind == 'hypothesis':
        strategy = ph.strategy
        break
assert strategy is not None
count = [0]


@settings(deadline=None, database=None, suppress_health_check=list(HealthCheck))
@given(strategy)
def test(case):
    ctx.current_case = case
    count[0] += 1
    if count[0] % 100 == 0:
        with open(os.path.join(outdir, 'count.txt'), 'w') as f:
            f.write(str(count[0]))
    try:
        prop.check(case, ctx)
    except Violation as v:
        with open(os.path.join(outdir, 'case_%d.json' % count[0]), 'w') as f:
            json.dump({'case': case, 'finding': v.finding}, f, default=repr)
        raise


def one(data):
    test.hypothesis.fuzz_one_input(data)


import atexit


def _report():
    sys.stderr.write('fuzz_prop: %d cases evaluated by the property\n' % count[0])


atheris.Setup(argv, one)
try:
    atheris.Fuzz()
finally:
    _report()
